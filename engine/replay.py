"""
Native (plain CPython, no CrossHair tracing, no proxies) re-execution of one harness call.

usage: replay.py <harness module> <call expression> [--trace]
env:   VERIF_PARAMS (shard parameters of the obligation)

Prints one JSON line: {"holds": bool, "result": repr | null, "exception": str | null, "functions": [...]}
holds == True  <=>  the harness call returned a truthy value and raised nothing.
--trace records the qualified names of every /repo function entered (evidence: functions_encoded).
"""
import importlib
import json
import os
import sys
import traceback

HERE = os.path.dirname(os.path.abspath(__file__))
sys.path.insert(0, os.path.dirname(HERE))
REPO = os.environ.get('VERIF_REPO') or '/repo'


def run(modname, call, trace=False):
    import logging
    logging.disable(logging.CRITICAL)
    mod = importlib.import_module('harness.' + modname)
    out = {'holds': False, 'result': None, 'exception': None, 'functions': []}
    seen = set()

    def prof(frame, event, arg):
        if event == 'call':
            co = frame.f_code
            if co.co_filename.startswith(REPO + '/'):
                seen.add('%s:%s' % (os.path.relpath(co.co_filename, REPO), co.co_qualname))
    try:
        if trace:
            sys.setprofile(prof)
        try:
            res = eval(call, dict(vars(mod)))
        finally:
            sys.setprofile(None)
        out['result'] = repr(res)[:500]
        out['holds'] = bool(res)
    except BaseException as e:  # noqa
        out['exception'] = ''.join(traceback.format_exception(type(e), e, e.__traceback__))[-2500:]
    out['functions'] = sorted(seen)
    return out


if __name__ == '__main__':
    res = run(sys.argv[1], sys.argv[2], '--trace' in sys.argv[3:])
    sys.stdout.write('\n##REPLAY## ' + json.dumps(res) + '\n')
