"""
Run one Engine-B (direct SMT) or concrete side-condition obligation natively.

usage: nativeworker.py <harness module> <function>
The harness function returns a dict:
  {'verdict': 'confirmed' | 'refuted' | 'unknown', 'call': <replay expression when refuted>,
   'queries': n, 'solver_time_s': t, 'sample': <what was asked>, 'detail': str, 'functions': [...]}
"""
import importlib
import json
import os
import sys
import time
import traceback

HERE = os.path.dirname(os.path.abspath(__file__))
sys.path.insert(0, os.path.dirname(HERE))


def main():
    modname, fname = sys.argv[1], sys.argv[2]
    t0 = time.time()
    out = {'verdict': 'unknown', 'queries': 0, 'solver_time_s': 0.0, 'paths': 0}
    try:
        import logging
        logging.disable(logging.CRITICAL)
        mod = importlib.import_module('harness.' + modname)
        res = getattr(mod, fname)()
        out.update(res)
    except BaseException as e:  # noqa
        out['verdict'] = 'unknown'
        out['detail'] = ''.join(traceback.format_exception(type(e), e, e.__traceback__))[-3000:]
    out['wall_s'] = round(time.time() - t0, 2)
    out['solver_time_s'] = round(out.get('solver_time_s', 0.0), 3)
    sys.stdout.write('\n##RESULT## ' + json.dumps(out, default=str) + '\n')


if __name__ == '__main__':
    main()
