"""
Host CrossHair in-process for ONE obligation and report a JSON verdict on the last stdout line.

usage: chworker.py <harness module> <function> <per_condition_timeout_s> [--twin]

 * the harness module is imported from /verif/harness, which imports the real modules from /repo
   (nothing is copied or modelled: the byte-code CrossHair executes is /repo's working tree)
 * z3.Solver.check and StateSpace.__init__ are wrapped, so `queries`, `solver_time_s` and `paths`
   are counted, not estimated
 * --twin analyses the generated reachability twin (same signature, same `pre:` lines, body calls the
   harness, `post: False`): it must come back REFUTED, the arguments are the non-vacuity witness

Verdicts: confirmed | refuted | unknown | pre_unsat | error
"""
import inspect
import json
import os
import re
import sys
import time
import traceback

HERE = os.path.dirname(os.path.abspath(__file__))
ROOT = os.path.dirname(HERE)
sys.path.insert(0, ROOT)

STATS = {'queries': 0, 'solver_time_s': 0.0, 'paths': 0}


def _instrument():
    import z3
    from crosshair import statespace
    orig_check = z3.Solver.check

    def check(self, *a, **k):
        t0 = time.perf_counter()
        try:
            return orig_check(self, *a, **k)
        finally:
            STATS['queries'] += 1
            STATS['solver_time_s'] += time.perf_counter() - t0
    z3.Solver.check = check
    orig_init = statespace.StateSpace.__init__

    def init(self, *a, **k):
        STATS['paths'] += 1
        return orig_init(self, *a, **k)
    statespace.StateSpace.__init__ = init


def _doc_conditions(fn):
    """(pre lines, post lines) of a PEP316 docstring."""
    pre, post = [], []
    for line in (fn.__doc__ or '').splitlines():
        s = line.strip()
        if s.startswith('pre:'):
            pre.append(s)
        elif s.startswith('post:'):
            post.append(s)
    return pre, post


def make_twin(modname, fname):
    """Write the reachability twin of harness.<modname>.<fname> to .cache/twins and import it."""
    import importlib
    mod = importlib.import_module('harness.' + modname)
    fn = getattr(mod, fname)
    sig = inspect.signature(fn)
    params = []
    for p in sig.parameters.values():
        ann = p.annotation
        if ann is inspect.Parameter.empty:
            raise SystemExit('harness parameter without annotation: %s' % p.name)
        aname = ann.__name__ if isinstance(ann, type) else str(ann).replace('typing.', '')
        params.append('%s: %s' % (p.name, aname))
    # raw source of the docstring's pre lines (PEP316 reads the source text, not __doc__)
    src = inspect.getsource(fn)
    pre_src = [l.strip() for l in src.splitlines() if l.strip().startswith('pre:')]
    tdir = os.path.join(ROOT, '.cache', 'twins')
    os.makedirs(tdir, exist_ok=True)
    tname = 'twin_%s_%s_%d' % (modname, fname, os.getpid())
    body = [
        'from typing import *',
        'import harness.%s as _M' % modname,
        'globals().update({k: v for k, v in vars(_M).items() if not k.startswith("__")})',
        'def %s(%s) -> bool:' % (tname, ', '.join(params)),
        "    '''",
    ] + ['    ' + l for l in pre_src] + [
        '    post: False',
        "    '''",
        '    _M.%s(%s)' % (fname, ', '.join(sig.parameters)),
        '    return True',
        '',
    ]
    path = os.path.join(tdir, tname + '.py')
    with open(path, 'w') as fd:
        fd.write('\n'.join(body))
    if tdir not in sys.path:
        sys.path.insert(0, tdir)
    tmod = importlib.import_module(tname)
    return getattr(tmod, tname), tname


CALL_RE = re.compile(r'when calling (.*?)(?: \(which returns .*\))?$', re.S)


def main():
    modname, fname, timeout = sys.argv[1], sys.argv[2], float(sys.argv[3])
    twin = '--twin' in sys.argv[4:]
    out = {'module': modname, 'function': fname, 'twin': twin, 'verdict': 'error'}
    t0 = time.time()
    try:
        import logging
        logging.disable(logging.CRITICAL)
        import importlib
        mod = importlib.import_module('harness.' + modname)
        if twin:
            fn, tname = make_twin(modname, fname)
        else:
            fn, tname = getattr(mod, fname), fname
        _instrument()
        from crosshair.core_and_libs import analyze_function, run_checkables
        from crosshair.options import AnalysisOptionSet
        from crosshair.statespace import MessageType
        opts = AnalysisOptionSet(
            per_condition_timeout=timeout,
            per_path_timeout=max(timeout / 2.0, 5.0),
            max_uninteresting_iterations=sys.maxsize,
            report_all=True,
        )
        msgs = run_checkables(analyze_function(fn, opts))
        out['messages'] = [{'state': m.state.name, 'message': m.message[:2000]} for m in msgs]
        states = [m.state for m in msgs]
        if not msgs:
            out['verdict'] = 'error'
            out['detail'] = 'no conditions found'
        elif any(s.name in ('POST_FAIL', 'EXEC_ERR', 'POST_ERR') for s in states):
            out['verdict'] = 'refuted'
            bad = [m for m in msgs if m.state.name in ('POST_FAIL', 'EXEC_ERR', 'POST_ERR')][0]
            out['state'] = bad.state.name
            m = CALL_RE.search(bad.message)
            call = m.group(1) if m else None
            if call and twin:
                call = call.replace(tname + '(', fname + '(', 1)
                try:
                    os.unlink(os.path.join(ROOT, '.cache', 'twins', tname + '.py'))
                except OSError:
                    pass
            out['call'] = call
            out['detail'] = bad.message[:2000]
        elif all(s == MessageType.CONFIRMED for s in states):
            out['verdict'] = 'confirmed'
        elif any(s == MessageType.PRE_UNSAT for s in states):
            out['verdict'] = 'pre_unsat'
        elif any(s in (MessageType.SYNTAX_ERR, MessageType.IMPORT_ERR) for s in states):
            out['verdict'] = 'error'
            out['detail'] = '; '.join(m.message for m in msgs)[:2000]
        else:
            out['verdict'] = 'unknown'
    except BaseException as e:  # noqa - report everything, the runner decides
        out['verdict'] = 'error'
        out['detail'] = ''.join(traceback.format_exception(type(e), e, e.__traceback__))[-3000:]
    out.update(STATS)
    out['solver_time_s'] = round(out['solver_time_s'], 3)
    out['wall_s'] = round(time.time() - t0, 2)
    sys.stdout.write('\n##RESULT## ' + json.dumps(out) + '\n')
    sys.stdout.flush()
    os._exit(0)


if __name__ == '__main__':
    main()
