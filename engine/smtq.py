"""
Engine B: direct SMT queries.

 * re_to_z3(compiled_pattern): the *compiled pattern object of the imported /repo module* is parsed with
   re._parser and translated to a z3 regular expression (fullmatch semantics; a leading ^ / trailing $ is absorbed).
 * lang_equal(A, B): unsat of  s in A xor s in B  (unbounded unless max_len is given) -> 'confirmed';
   sat -> 'refuted' with the witness string; unknown -> 'unknown'.
 * cvc5 cross-check: the same assertion is exported as SMT-LIB2 and given to the cvc5 wheel when present;
   disagreement -> 'unknown' (inconclusive), never success.
"""
import re
import time

import z3

try:
    import re._parser as sre_parse
    import re._constants as sre_c
except ImportError:  # py < 3.11
    import sre_parse
    import sre_constants as sre_c

MAXCHAR = 0x2FFFF  # z3's character sort; Python code points above it are outside every claim of Engine B


class Untranslatable(Exception):
    pass


def _chr_re(c):
    return z3.Re(z3.StringVal(chr(c)))


def _range(lo, hi):
    return z3.Range(z3.StringVal(chr(lo)), z3.StringVal(chr(hi)))


def _anychar():
    return z3.AllChar(z3.ReSort(z3.StringSort()))


def _union(items):
    items = list(items)
    if not items:
        return z3.Empty(z3.ReSort(z3.StringSort()))
    if len(items) == 1:
        return items[0]
    return z3.Union(*items)


def _concat(items):
    items = list(items)
    if not items:
        return z3.Re(z3.StringVal(''))
    if len(items) == 1:
        return items[0]
    return z3.Concat(*items)


def _set(items, flags):
    neg = False
    parts = []
    for op, av in items:
        if op is sre_c.NEGATE:
            neg = True
        elif op is sre_c.LITERAL:
            parts.append(_chr_re(av))
        elif op is sre_c.RANGE:
            parts.append(_range(av[0], av[1]))
        elif op is sre_c.CATEGORY:
            if av is sre_c.CATEGORY_DIGIT and (flags & re.ASCII):
                parts.append(_range(ord('0'), ord('9')))
            else:
                raise Untranslatable('category %s' % av)
        else:
            raise Untranslatable('set item %s' % op)
    u = _union(parts)
    if neg:
        return z3.Intersect(_anychar(), z3.Complement(u))
    return u


def _seq(seq, flags, top=False):
    out = []
    items = list(seq)
    for idx, (op, av) in enumerate(items):
        if op is sre_c.LITERAL:
            out.append(_chr_re(av))
        elif op is sre_c.NOT_LITERAL:
            out.append(z3.Intersect(_anychar(), z3.Complement(_chr_re(av))))
        elif op is sre_c.ANY:
            if not (flags & re.S):
                out.append(z3.Intersect(_anychar(), z3.Complement(_chr_re(10))))
            else:
                out.append(_anychar())
        elif op is sre_c.IN:
            out.append(_set(av, flags))
        elif op is sre_c.BRANCH:
            out.append(_union(_seq(b, flags) for b in av[1]))
        elif op is sre_c.SUBPATTERN:
            out.append(_seq(av[3], flags))
        elif op in (sre_c.MAX_REPEAT, sre_c.MIN_REPEAT):
            lo, hi, sub = av
            r = _seq(sub, flags)
            if hi is sre_c.MAXREPEAT:
                if lo == 0:
                    out.append(z3.Star(r))
                elif lo == 1:
                    out.append(z3.Plus(r))
                else:
                    out.append(z3.Concat(z3.Loop(r, lo, lo), z3.Star(r)))
            else:
                out.append(z3.Loop(r, lo, hi))
        elif op is sre_c.AT:
            if top and av in (sre_c.AT_BEGINNING, sre_c.AT_BEGINNING_STRING) and idx == 0:
                continue
            if top and av in (sre_c.AT_END_STRING,) and idx == len(items) - 1:
                continue
            if top and av is sre_c.AT_END and idx == len(items) - 1 and not (flags & re.M):
                # Python's $ also matches just before one trailing newline
                out.append(z3.Option(_chr_re(10)))
                continue
            raise Untranslatable('anchor %s inside pattern' % av)
        else:
            raise Untranslatable('opcode %s' % op)
    return _concat(out)


def re_to_z3(pat):
    """z3 regex for the language { s : pat.fullmatch(s) } of a compiled Python pattern."""
    if isinstance(pat, str):
        pat = re.compile(pat)
    if pat.flags & re.I:
        raise Untranslatable('IGNORECASE')
    tree = sre_parse.parse(pat.pattern, pat.flags & ~re.U)
    return _seq(tree, pat.flags, top=True)


class Q(object):
    """Counts queries and solver time for the evidence."""
    def __init__(self):
        self.queries = 0
        self.solver_time_s = 0.0
        self.log = []

    def check(self, assertions, timeout_ms=60000, what=''):
        s = z3.Solver()
        s.set('timeout', timeout_ms)
        for a in assertions:
            s.add(a)
        t0 = time.perf_counter()
        r = s.check()
        dt = time.perf_counter() - t0
        self.queries += 1
        self.solver_time_s += dt
        res = str(r)
        model = s.model() if res == 'sat' else None
        cv = self._cvc5(s, timeout_ms)
        self.log.append({'what': what, 'z3': res, 'cvc5': cv, 'time_s': round(dt, 3)})
        if cv in ('sat', 'unsat') and res in ('sat', 'unsat') and cv != res:
            return 'unknown', None
        return res, model

    def _cvc5(self, solver, timeout_ms):
        try:
            import cvc5
        except ImportError:
            return 'n/a'
        try:
            text = solver.to_smt2()
            slv = cvc5.Solver()
            slv.setOption('tlimit-per', str(min(timeout_ms, 5000)))
            slv.setOption('strings-exp', 'true')
            slv.setLogic('ALL')
            parser = cvc5.InputParser(slv)
            parser.setStringInput(cvc5.InputLanguage.SMT_LIB_2_6, text, 'q')
            sm = parser.getSymbolManager()
            res = 'n/a'
            t0 = time.perf_counter()
            while True:
                cmd = parser.nextCommand()
                if cmd.isNull():
                    break
                out = cmd.invoke(slv, sm)
                o = str(out).strip()
                if o in ('sat', 'unsat', 'unknown'):
                    res = o
            self.solver_time_s += time.perf_counter() - t0
            self.queries += 1
            return res
        except Exception as e:  # noqa - the cross-check is best effort
            return 'n/a (%s)' % str(e)[:80]


def lang_diff_witness(q, ra, rb, max_len=None, timeout_ms=60000, what=''):
    """Find s with (s in ra) != (s in rb).  Returns (verdict, witness)."""
    s = z3.String('s')
    cons = [z3.Xor(z3.InRe(s, ra), z3.InRe(s, rb))]
    if max_len is not None:
        cons.append(z3.Length(s) <= max_len)
    res, model = q.check(cons, timeout_ms, what)
    if res == 'unsat':
        return 'confirmed', None
    if res == 'sat':
        return 'refuted', model[s].as_string() if model[s] is not None else ''
    return 'unknown', None


def z3str_to_py(txt):
    """z3 prints non-ASCII as \\u{..}; turn a model string into a Python str."""
    return re.sub(r'\\u\{([0-9a-fA-F]+)\}', lambda m: chr(int(m.group(1), 16)), txt)


def top_items(pat):
    """z3 regexes of the top-level sequence items of a compiled pattern (anchors dropped) - the group structure of the REAL regex."""
    tree = sre_parse.parse(pat.pattern, pat.flags & ~re.U)
    out = []
    for op, av in tree:
        if op is sre_c.AT:
            continue
        out.append(_seq([(op, av)], pat.flags))
    return out


def unique_decomposition(q, items, timeout_ms=120000, what='', max_part=None):
    """unsat of: two different tuples (x_k in items[k]) with equal concatenation -> every string has ONE decomposition."""
    xs = [z3.String('x%d' % k) for k in range(len(items))]
    ys = [z3.String('y%d' % k) for k in range(len(items))]
    cons = [z3.InRe(x, r) for x, r in zip(xs, items)] + [z3.InRe(y, r) for y, r in zip(ys, items)]
    cons.append(z3.Concat(*xs) == z3.Concat(*ys))
    cons.append(z3.Or(*[x != y for x, y in zip(xs, ys)]))
    if max_part is not None:
        cons += [z3.Length(v) <= max_part for v in xs + ys]
    res, model = q.check(cons, timeout_ms, what)
    if res == 'unsat':
        return 'confirmed', None
    if res == 'sat':
        return 'refuted', ''.join(model[x].as_string() for x in xs)
    return 'unknown', None
