"""
Obligation runner: harness table -> process pool -> verdicts -> replay -> findings -> evidence -> exit code.

usage: runner.py <property id> [--tier quick|thorough] [--only <obligation substring>] [--jobs N]

exit 0  every obligation of the tier discharged (KNOWN-FINDING lines may be printed)
exit 1  a counterexample that REPLAYS natively on the real code and is not a listed finding
        (`VIOLATION property=<id> replay=<path>`)
exit 3  inconclusive: not confirmed / time-out / vacuous / non-replaying counterexample / tool failure
"""
import argparse
import concurrent.futures as cf
import importlib
import json
import os
import subprocess
import sys
import time

HERE = os.path.dirname(os.path.abspath(__file__))
ROOT = os.path.dirname(HERE)
sys.path.insert(0, ROOT)
PY = sys.executable
EVID = os.environ.get('VERIF_EVIDENCE_DIR') or os.path.join(ROOT, 'evidence')
REPLAYS = os.path.join(EVID, 'replays')
FINDINGS = os.path.join(ROOT, 'KNOWN_FINDINGS.json')


def sh(cmd, env, timeout):
    t0 = time.time()
    try:
        p = subprocess.run(cmd, env=env, stdout=subprocess.PIPE, stderr=subprocess.PIPE, timeout=timeout,
                           cwd=ROOT, text=True, errors='replace')
        return p.returncode, p.stdout, p.stderr, time.time() - t0
    except subprocess.TimeoutExpired as e:
        out = e.stdout if isinstance(e.stdout, str) else (e.stdout or b'').decode('utf8', 'replace')
        return -9, out, 'wall timeout', time.time() - t0


def tagged(out, tag):
    for line in reversed(out.splitlines()):
        if line.startswith(tag):
            return json.loads(line[len(tag):])
    return None


def env_for(params, extra=None):
    env = dict(os.environ)
    env['VERIF_PARAMS'] = json.dumps(params or {})
    env['PYTHONWARNINGS'] = 'ignore'
    env['PYTHONHASHSEED'] = '0'
    env['AZONER_PYX12_VERIF'] = '1'
    if os.environ.get('VERIF_REPO'):
        env['PYTHONPATH'] = os.environ['VERIF_REPO']
    if extra:
        env.update(extra)
    return env


def replay(mod, call, params, trace=False, extra=None):
    cmd = [PY, '-W', 'ignore', os.path.join(HERE, 'replay.py'), mod, call] + (['--trace'] if trace else [])
    rc, out, err, _ = sh(cmd, env_for(params, extra), 600)
    r = tagged(out, '##REPLAY## ')
    if r is None:
        r = {'holds': False, 'result': None, 'exception': 'replay process failed: rc=%s %s' % (rc, err[-500:]),
             'functions': [], 'replay_failed': True}
    return r


def run_ch(mod, ob, params, twin):
    cmd = [PY, '-W', 'ignore', os.path.join(HERE, 'chworker.py'), mod, ob['fn'], str(ob['timeout'])]
    if twin:
        cmd.append('--twin')
    rc, out, err, wall = sh(cmd, env_for(params), ob['timeout'] * 1.5 + 120)
    r = tagged(out, '##RESULT## ')
    if r is None:
        r = {'verdict': 'unknown', 'detail': 'worker died rc=%s: %s' % (rc, (err or '')[-800:]), 'paths': 0,
             'queries': 0, 'solver_time_s': 0.0, 'wall_s': round(wall, 2)}
    return r


def run_native(mod, ob, params):
    """kind smt / concrete: the harness function itself runs the solver (or a concrete side condition)."""
    cmd = [PY, '-W', 'ignore', os.path.join(HERE, 'nativeworker.py'), mod, ob['fn']]
    rc, out, err, wall = sh(cmd, env_for(params), ob['timeout'] + 60)
    r = tagged(out, '##RESULT## ')
    if r is None:
        r = {'verdict': 'unknown', 'detail': 'worker died rc=%s: %s' % (rc, (err or '')[-800:]), 'queries': 0,
             'solver_time_s': 0.0, 'paths': 0, 'wall_s': round(wall, 2)}
    return r


def do_obligation(pid, mod, ob):
    """Returns a record with final status: discharged | violation | inconclusive."""
    rungs = [ob.get('params') or {}] + list(ob.get('ladder') or [])
    rec = {'name': ob['name'], 'fn': ob['fn'], 'kind': ob['kind'], 'status': 'inconclusive', 'rungs_tried': 0}
    tot = {'paths': 0, 'queries': 0, 'solver_time_s': 0.0}
    for params in rungs:
        rec['rungs_tried'] += 1
        rec['params'] = params
        if ob['kind'] == 'ch':
            with cf.ThreadPoolExecutor(2) as ex:
                fm = ex.submit(run_ch, mod, ob, params, False)
                ft = ex.submit(run_ch, mod, ob, params, True)
                main, twin = fm.result(), ft.result()
        else:
            main, twin = run_native(mod, ob, params), None
        for r in (main, twin):
            if r:
                for k in tot:
                    tot[k] += r.get(k, 0) or 0
        rec.update({'verdict': main['verdict'], 'paths': main.get('paths', 0), 'queries': main.get('queries', 0),
                    'solver_time_s': main.get('solver_time_s', 0.0), 'wall_s': main.get('wall_s', 0.0),
                    'detail': (main.get('detail') or '')[:1500]})
        for k in ('extra', 'sample'):
            if main.get(k) is not None:
                rec[k] = main[k]
        if main['verdict'] == 'refuted':
            call = main.get('call')
            if not call:
                rec['status'] = 'inconclusive'
                rec['detail'] = 'counterexample without a call expression: ' + rec['detail']
                break
            rp = replay(mod, call, params)
            rec['counterexample'] = {'call': call, 'replay': rp}
            if rp.get('replay_failed'):
                rec['status'] = 'inconclusive'
            elif rp['holds']:
                rec['status'] = 'inconclusive'
                rec['detail'] = 'counterexample does not replay natively (spurious): ' + call
            else:
                rec['status'] = 'violation'
            break   # a counterexample at any rung ends the ladder
        if main['verdict'] == 'confirmed':
            if twin is not None:
                # vacuity guard: the twin must be refuted and its witness must replay (pre holds, body completes)
                if twin['verdict'] == 'refuted' and twin.get('call'):
                    rp = replay(mod, twin['call'], params, trace=True)
                    rec['witness'] = {'call': twin['call'], 'holds': rp['holds']}
                    rec['functions'] = rp.get('functions', [])
                    if rp['holds']:
                        rec['status'] = 'discharged'
                    else:
                        rec['detail'] = 'twin witness does not replay: %s' % (rp.get('exception') or rp.get('result'))
                else:
                    rec['detail'] = 'vacuity guard failed: twin verdict %s %s' % (twin['verdict'], (twin.get('detail') or '')[:300])
            else:
                rec['status'] = 'discharged'
                if main.get('functions'):
                    rec['functions'] = main['functions']
            if rec['status'] == 'discharged':
                break
        # otherwise: unknown / pre_unsat / error -> next (smaller) rung
    rec['total'] = tot
    return rec


def load_findings(pid):
    if not os.path.exists(FINDINGS):
        return []
    with open(FINDINGS) as fd:
        data = json.load(fd)
    return [f for f in data.get('findings', []) if f.get('property') == pid]


def main():
    ap = argparse.ArgumentParser()
    ap.add_argument('pid')
    ap.add_argument('--tier', default=os.environ.get('VERIF_TIER', 'quick'))
    ap.add_argument('--only', default=None)
    ap.add_argument('--cap', type=int, default=None, help='development aid: cap every obligation timeout (seconds)')
    ap.add_argument('--jobs', type=int, default=int(os.environ.get('VERIF_JOBS', '8')))
    a = ap.parse_args()
    pid = a.pid.upper()
    modname = pid.lower()
    t0 = time.time()
    seed = int(os.environ.get('VERIF_SEED', '0') or 0)
    os.makedirs(REPLAYS, exist_ok=True)
    os.environ['PYTHONWARNINGS'] = 'ignore'
    mod = importlib.import_module('harness.' + modname)
    obs = [o for o in mod.OBLIGATIONS if a.tier == 'thorough' or o['tier'] == 'quick']
    if a.only:
        obs = [o for o in obs if a.only in o['name']]
    if a.cap:
        obs = [dict(o, timeout=min(o['timeout'], a.cap)) for o in obs]
    recs = []
    with cf.ThreadPoolExecutor(a.jobs) as ex:
        futs = {ex.submit(do_obligation, pid, modname, o): o for o in obs}
        for f in cf.as_completed(futs):
            r = f.result()
            recs.append(r)
            sys.stderr.write('[%s] %-28s %-12s %-10s paths=%-5s q=%-6s %.1fs %s\n' % (
                pid, r['name'], r['status'], r.get('verdict'), r.get('paths'), r.get('queries'), r.get('wall_s', 0),
                (r.get('detail') or '')[:160].replace('\n', ' ') if r['status'] != 'discharged' else ''))
    order = {o['name']: i for i, o in enumerate(obs)}
    recs.sort(key=lambda r: order[r['name']])

    # known findings: witness re-execution with the exclusion switched off
    lines = []
    for f in load_findings(pid):
        if f.get('status') != 'known':
            continue
        w = f['witness']
        rp = replay(w['module'], w['call'], w.get('params'), extra={'VERIF_NO_EXCLUDE': '1'})
        if not rp['holds']:
            lines.append('KNOWN-FINDING: property=%s %s [%s]' % (pid, f['what'], f['id']))
        else:
            lines.append('NOTE: listed finding %s of %s no longer reproduces' % (f['id'], pid))

    viol = [r for r in recs if r['status'] == 'violation']
    inc = [r for r in recs if r['status'] == 'inconclusive']
    vio_paths = []
    for r in viol:
        path = os.path.join(REPLAYS, '%s-%s.json' % (pid, r['name']))
        with open(path, 'w') as fd:
            json.dump({'property': pid, 'obligation': r['name'], 'module': modname, 'params': r['params'],
                       'call': r['counterexample']['call'], 'observed': r['counterexample']['replay'],
                       'how': './vcheck replay %s' % path}, fd, indent=1)
        vio_paths.append(path)

    # ------------------------------------------------------------------ evidence
    level = getattr(mod, 'LEVEL', 'other')
    funcs = sorted(set(f for r in recs for f in r.get('functions', [])) | set(getattr(mod, 'FUNCTIONS', [])))
    samples = []
    for r in recs:
        if r.get('witness'):
            samples.append({'obligation': r['name'], 'params': r['params'], 'reachability_witness': r['witness']['call']})
        elif r.get('sample') is not None:
            samples.append({'obligation': r['name'], 'params': r['params'], 'sample': r['sample']})
    paths = sum(r['total']['paths'] for r in recs)
    cov = {
        'explanation': getattr(mod, 'EXPLANATION', mod.__doc__ or '').strip(),
        'obligations': len(recs),
        'discharged': len([r for r in recs if r['status'] == 'discharged']),
        'evaluations': max(paths, len(recs)),
        'distinct_nontrivial': len([r for r in recs if r['status'] == 'discharged' and
                                    (r.get('paths', 0) >= 2 or r['kind'] != 'ch')]),
        'rule': 'one case = one obligation (harness function x shard parameters) decided by the solver over all '
                'values of its symbolic inputs inside the stated bounds; non-trivial = discharged with >= 2 explored '
                'paths (CrossHair) or a solver query (SMT); evaluations = execution paths explored symbolically',
        'paths': paths,
        'queries': sum(r['total']['queries'] for r in recs),
        'solver_time_s': round(sum(r['total']['solver_time_s'] for r in recs), 2),
        'functions_encoded': funcs,
        'bounds': {r['name']: r['params'] for r in recs},
        'bounds_text': getattr(mod, 'BOUNDS', ''),
        'outside_bounds': getattr(mod, 'OUTSIDE', ''),
        'samples': samples[:40] or [{'note': 'no witness available'}],
        'checker_cmd': './vcheck %s --tier %s' % (pid, a.tier),
        'trusted_base': ['CPython 3.12', 'crosshair-tool 0.0.110 (symbolic proxies for str/int/list/re)', 'z3 5.1.0',
                         'harness oracles in /verif/harness/%s.py' % modname, 'environment stubs listed in assumptions'],
        'per_obligation': [{k: r.get(k) for k in ('name', 'fn', 'kind', 'status', 'verdict', 'params', 'paths',
                                                  'queries', 'solver_time_s', 'wall_s', 'rungs_tried')} for r in recs],
        'known_findings': lines,
        'inconclusive': [{'name': r['name'], 'detail': r.get('detail')} for r in inc],
        'exhaustive': False,
    }
    if level == 'model_checking':
        cov['states'] = max(paths, 1)
        cov['transitions'] = max(paths, 1)
        cov['traces_validated_against_impl'] = len([r for r in recs if r.get('witness', {}).get('holds')])
    ev = {
        'property_id': pid, 'tier': a.tier if a.tier in ('quick', 'thorough') else 'quick', 'seed': seed,
        'level': level, 'coverage': cov,
        'assumptions': list(getattr(mod, 'ASSUMPTIONS', [])),
        'wall_s': round(time.time() - t0, 2),
        'violations': len(viol),
    }
    if not a.only and not a.cap:
        with open(os.path.join(EVID, '%s.json' % pid), 'w') as fd:
            json.dump(ev, fd, indent=1)

    for l in lines:
        print(l)
    print('%s tier=%s obligations=%d discharged=%d violations=%d inconclusive=%d paths=%d queries=%d solver=%.1fs wall=%.0fs' % (
        pid, a.tier, len(recs), cov['discharged'], len(viol), len(inc), paths, cov['queries'], cov['solver_time_s'],
        time.time() - t0))
    if viol:
        for r, p in zip(viol, vio_paths):
            print('counterexample %s: %s -> %s' % (r['name'], r['counterexample']['call'],
                                                  (r['counterexample']['replay'].get('exception') or
                                                   r['counterexample']['replay'].get('result') or '')[-300:]))
            print('VIOLATION property=%s replay=%s' % (pid, p))
        sys.exit(1)
    if inc:
        for r in inc:
            print('INCONCLUSIVE property=%s obligation=%s %s' % (pid, r['name'], (r.get('detail') or '')[:300].replace('\n', ' ')))
        sys.exit(3)
    sys.exit(0)


if __name__ == '__main__':
    main()
