"""Regenerate /verif/MANIFEST.json from the table below (kept valid at all times)."""
import json
import os

ROOT = os.path.dirname(os.path.dirname(os.path.abspath(__file__)))

CLAIMS = {
    # pid: (category, technique, level text, level note, design ref)
    'C13': ('other', 'bounded symbolic execution (CrossHair+z3) of the real recognisers + z3/cvc5 regex language equivalence',
            'Every recogniser is executed symbolically on all unicode strings of each length shard and compared with the X12 value '
            'language; the regexes the recognisers rely on are proved language-equal to the specification for strings of any length. '
            'Bounded-exhaustive by solver, not sampled: right level because the interesting inputs (short times, lone sign, leap days, '
            'multi-hyphen ranges) are rare points of an infinite domain.',
            'Trusted: CrossHair string/regex models, z3, the oracle regexes/calendar arithmetic in harness/c13.py. Bounds: see evidence.coverage.bounds_text.',
            'DESIGN.md §5 C13'),
    'C14': ('other', 'bounded symbolic execution (CrossHair+z3) of is_syntax_valid, _split_syntax and the syntax loop of segment_if.is_valid',
            'For every note shape (type x position tuple; all shipped note texts in thorough) the real evaluator is run on a segment of symbolic length '
            'with symbolic presence flags and compared with the X12 definition; routing to element error codes 2/10 is checked on a segment node built '
            'by the real map loader. All presence patterns and lengths are covered by the solver, not sampled.',
            'Trusted: CrossHair, z3, the five-line X12 oracle. Positions are shard parameters; composite elements are outside the claim.',
            'DESIGN.md §5 C14'),
    'C17': ('other', 'z3/cvc5 regex language + unique-decomposition queries for the path regex; bounded symbolic execution (CrossHair+z3) of X12Path and Segment.set/get',
            'The path regex of the real class is proved equal to the documented grammar and uniquely decomposable (so its groups are the documented parts); '
            'the code around it is executed on symbolic choices of loops/components and Segment.set/get on segments with symbolic values against a reference model.',
            'Trusted: CrossHair, z3, cvc5, the table of representative components (generality of ids/indices rests on the Engine-B queries). Loop ids are concrete-by-choice '
            'because CrossHair 0.0.110 produced non-replaying counterexamples for == of composed symbolic strings.',
            'DESIGN.md §5 C17'),
    'C04': ('model_checking', 'inductive step over the reader state machine: bounded symbolic execution (CrossHair+z3) of _parse_segment/cleanup from an arbitrary invariant state',
            'Each segment kind is one transition checked from an ARBITRARY state satisfying the representation invariant (symbolic control numbers, seen-id lists, '
            'counters, HL stack): errors reported == errors the recount predicts and the invariant is re-established, which covers interchanges of any length by induction; '
            'mis-nested headers/trailers must yield an error by the time all envelopes are closed.',
            'Trusted: CrossHair, z3, the invariant (base case checked concretely), the recount oracle. Counters <= 3, ids one character, count tokens from 11 classes.',
            'DESIGN.md §5 C04'),
    'C11': ('model_checking', 'inductive step over the writer state machine: bounded symbolic execution (CrossHair+z3) of Write/Close from an arbitrary invariant state',
            'One Write or Close from an ARBITRARY invariant state (symbolic counts, symbolic choice of supplied trailer id/count, delimiters) must emit exactly the generated trailers '
            '(innermost first, header id, true count) followed by the segment unless it is a trailer, and re-establish the invariant; real writer output is read back by the real reader in the composition obligations.',
            'Trusted: CrossHair, z3, the invariant, the expected-text oracle. Control numbers and data values are symbolic choices from small tables because str.format in the code under test concretises symbolic strings.',
            'DESIGN.md §5 C11'),
    'C01': ('other', 'bounded symbolic execution (CrossHair+z3) of RawX12File, X12Reader.__iter__ and Segment with a symbolic read schedule',
            'The stream stub hands out symbolically short reads, the buffer size is patched to 1..3 so every alignment of terminator/CR/LF and refill boundary is reached with short bodies, '
            'the body is an arbitrary symbolic string, delimiters are symbolic; the yielded lines and the element/component split are compared with a three-line reference.',
            'Trusted: CrossHair, z3, the Stream/open stubs, the reference splitter. Bodies <= 3 (4) characters; format/re-read round trip over the structural alphabet only (CrossHair mis-models re-splitting a %-formatted symbolic string).',
            'DESIGN.md §5 C01'),
    'C15': ('other', 'bounded symbolic execution (CrossHair+z3) of element_if.is_valid / composite_if.is_valid on symbolic definitions and values',
            'An element node with a symbolic definition (usage x data type shards, length bounds, code list, real external code sets with exclusions, pattern, qualifier-selected formats) '
            'is validated against every short value over an alphabet with one representative per character class; the set of reported codes must equal the set the definition implies.',
            'Trusted: CrossHair, z3, the 30-line oracle, the stub map root; data-type languages are C13\'s. Values <= 2 (3) characters or boundary tables.',
            'DESIGN.md §5 C15'),
    'C19': ('other', 'bounded symbolic execution (CrossHair+z3) of escape_html_chars, error_html.gen_seg and footer over hostile inputs',
            'escape_html_chars is checked on every string of <= 3 (4) characters (no markup, entity-closed, invertible); gen_seg/footer are run on error nodes built by the real '
            'err_handler with segment ids, values, delimiters and messages chosen symbolically from hostile tables: outside the fixed template tags no < or > may appear and every message is shown.',
            'Trusted: CrossHair, z3, the template-tag list. Table-chosen payloads because %-formatting with %i concretises symbolic strings.',
            'DESIGN.md §5 C19'),
    'C05': ('other', 'bounded symbolic execution (CrossHair+z3) of the error tree, its counters and the 997/999 visitors over symbolic tree shapes',
            'Error trees are built through the real err_handler API in x12n_document\'s call order from symbolic shape flags; the acknowledgement text written by the real visitors '
            'must name every group and set in order, mark a set / group accepted iff nothing was recorded inside, give declared/received/accepted totals equal to a recount, be addressed '
            'back to the sender, itemise segment/element errors at the right coordinates, and get_error_count() > 0 iff anything was recorded.',
            'Trusted: CrossHair, z3, the recount oracle, stub reader / map nodes. Shapes <= 2 groups x 2 sets; flags varied per family (set / group).',
            'DESIGN.md §5 C05'),
    'C06': ('other', 'bounded symbolic execution (CrossHair+z3) of the 997/999 visitors, X12Writer and X12Reader over symbolic tree shapes and hostile echoed values',
            'For every tree shape (1..3 interchanges) the acknowledgement must have exact SE/GE/IEA counts and matching control numbers, be read back by the real reader without '
            'envelope error, keep its segment/element structure whatever hostile value is echoed, select the 997/999 map in the real index and be accepted by the real validator.',
            'Trusted: CrossHair, z3, the envelope recount. One listed known finding (control numbers that contain the acknowledgement delimiters).',
            'DESIGN.md §5 C06'),
    'C08': ('other', 'bounded symbolic execution (CrossHair+z3) of XMLWriter escaping, x12xml_simple.seg loop bookkeeping on real map nodes and the XML round trip',
            'Escaping is checked on every string of <= 3 (4) characters; seg() is run for every ordered pair (and every two-call sequence on one renderer) of representative real map nodes '
            'from the invariant "stack spells path(previous)": it must render exactly the difference of the two map paths, label every element with its reference designator and convert back; '
            'real valid documents with injected hostile values must survive X12 -> XML -> X12.',
            'Trusted: CrossHair, z3, expat, the path-difference reference. Node pairs limited to a representative set of the 837P 4010 / 997 (835) maps.',
            'DESIGN.md §5 C08'),
    'C09': ('other', 'bounded symbolic execution (CrossHair+z3) of X12ContextReader.iter_segments over real documents with the requested loop id as symbolic choice',
            'For each document the reader is run for None and for every segment-anchored loop id of its map paths; the yielded nodes and trees are compared with a reference partition '
            'computed independently from the validator\'s (segment, matched node) callback: order, no loss/duplication, instance boundaries, arrangement under child loops, positions and lines.',
            'Trusted: CrossHair, z3, the validator callback as reference. The documents are concrete (3 quick, 7 thorough); the symbolic input is only the loop id, so this is the weakest kind of obligation (choice enumeration under the tracer).',
            'DESIGN.md §5 C09'),
    'C10': ('other', 'bounded symbolic execution (CrossHair+z3): insertion-index lemma over symbolic positions/ids/deleted-marks + editing laws on real trees with symbolic operation choice and values',
            'The insertion index is proved (within 2..4 children) to keep live children ordered by map position with arrival order among equals, whatever deleted nodes are present; '
            'set/get, exists/count/first/select, delete, add_segment/add_loop and copy are checked on real claim trees against serialisation-level frame conditions.',
            'Trusted: CrossHair, z3, the harness-side clone and serialisation. Real trees: the 2300 loops of two 837 test documents.',
            'DESIGN.md §5 C10'),
    'C07': ('other', 'bounded symbolic execution (CrossHair+z3) of the reader on hostile line pairs and of the whole pipeline / context reader on structurally mutated documents (symbolic position)',
            'Every ordered pair of hostile lines goes through the real reader; every catalogue mutation at every position of small real documents goes through x12n_document with all sinks '
            '(and through the context reader): the only allowed outcomes are a boolean, Map-not-found, or the documented not-X12 refusal of a malformed ISA.',
            'Trusted: CrossHair, z3. Documents are concrete, the symbolic inputs are positions and table choices (choice enumeration under the tracer - the weakest kind of obligation here).',
            'DESIGN.md §5 C07'),
    'C12': ('other', 'bounded symbolic execution (CrossHair+z3) of the whole pipeline on documents re-encoded with symbolically chosen delimiter triples and line-break conventions',
            'A valid document and single-fault variants (symbolic fault position) are re-encoded with every delimiter triple / line-break convention of the tables (control characters included) '
            'and read through a 7-character buffer; verdict and acknowledgement text must equal those of the ~ * : encoding. Arbitrary symbolic delimiters for the text layer are C01\'s.',
            'Trusted: CrossHair, z3. Documents and tables concrete, choices symbolic (choice enumeration under the tracer). One listed known finding (composite value echo).',
            'DESIGN.md §5 C12'),
    'C18': ('other', 'inductive state-preservation argument checked by bounded symbolic execution (CrossHair+z3) of the pipeline / context reader + two-job histories + hash-seed side condition',
            'G = all container-valued module globals, class attributes and function defaults of pyx12.*: every processing step of a catalogue (symbolic choices) leaves G unchanged, so no history '
            'can influence a later step through G; two-job histories with fresh or reused parameter objects must reproduce the first-job result; fresh interpreters under six hash seeds must agree.',
            'Trusted: CrossHair, z3, completeness of G (the history obligations catch state G does not know). Choice enumeration under the tracer; the hash-seed obligation is a concrete side condition, not a solver verdict.',
            'DESIGN.md §5 C18'),
    'C16': ('other', 'z3 finite-domain queries over fact tables dumped by the real loaders + bounded symbolic execution (CrossHair+z3) of map_index.get_filename with symbolically perturbed keys',
            'Every rule of the property is the query EXISTS row . NOT rule(row) over the table of all loop/segment nodes of all indexed maps (facts computed by the real loader and node methods): '
            'unsat = holds for the finite table; the index is checked with symbolic key suffixes: an entry is selected exactly by its own keys.',
            'Degenerate use of the solver (query engine over a concrete table), flagged in DESIGN.md. Six listed known findings are data defects of the shipped XML maps.',
            'DESIGN.md §5 C16'),
    'C20': ('other', 'bounded symbolic execution (CrossHair+z3) of scripts.x12norm.main with the operating system stubbed, over symbolic option / delimiter / line-break / count-token choices',
            'The whole command runs against an in-memory file system: for every option combination, delimiter triple (newline as terminator included), line-break convention and every '
            'right/wrong combination of IEA01/GE01/SE01/HL01 the destination must receive exactly the input segments (counts repaired only under --fixcounting), a second run must be the identity, '
            'and the repaired output must read back without count errors.',
            'Trusted: CrossHair, z3, the OS stubs (in-memory open/glob/tempfile/stdout). Choice enumeration under the tracer; 5-character read buffer.',
            'DESIGN.md §5 C20'),
    'C03': ('other', 'bounded symbolic execution (CrossHair+z3) of the whole pipeline on real conformant documents with one catalogue fault injected at a symbolic position',
            'Fault applicability and the expected standard code are derived from the real map node each segment matched; the acknowledgement must reject the set and name the faulted '
            'segment position, element position and code, and nothing else for faults that do not alter matching; loop repetition beyond the limit is injected adjacent and interleaved with same-ordinal siblings.',
            'Trusted: CrossHair, z3, the validator callback. Concrete documents, symbolic positions (choice enumeration under the tracer); element-level semantics for symbolic values are C15/C14/C13.',
            'DESIGN.md §5 C03'),
    'C02': ('other', 'bounded symbolic execution (CrossHair+z3) of the whole pipeline on map-permitted variants of real conformant documents (symbolic choice of the variation)',
            'Starting from valid documents, every variation the matched map nodes permit (drop optional segments, blank optional elements, any other listed code, repeat a repeatable loop, '
            'several groups of different types in one interchange) must still be accepted with an all-A acknowledgement. Acceptance for symbolic element definitions/values is C15, syntax C14, envelopes C04.',
            'Trusted: CrossHair, z3, the validator callback. Only maps with a valid test document are reached; documents are not synthesised from scratch (stated limit). Choice enumeration under the tracer.',
            'DESIGN.md §5 C02'),
}

NOT_YET = 'check not built yet in this round (planned: see DESIGN.md §5)'


def main():
    props = [json.loads(l)['id'] for l in open(os.path.join(ROOT, 'properties.jsonl'))]
    checks = []
    for pid in props:
        if pid not in CLAIMS:
            continue
        cat, tech, text, note, ref = CLAIMS[pid]
        checks.append({
            'property_id': pid,
            'quick_cmd': './vcheck %s --tier quick' % pid,
            'thorough_cmd': './vcheck %s --tier thorough' % pid,
            'evidence_file': 'evidence/%s.json' % pid,
            'replay_cmd_template': './vcheck replay {path}',
            'engine': 'vcheck',
            'level_claimed': {'category': cat, 'text': text, 'design_ref': ref},
            'level_note': note,
            'technique': tech,
        })
    na_reasons = {}
    p = os.path.join(ROOT, 'NOT_APPLICABLE.json')
    if os.path.exists(p):
        na_reasons = json.load(open(p))
    man = {
        'version': 1,
        'setup_cmd': './setup.sh',
        'hooks': {
            'guard': 'AZONER_PYX12_VERIF',
            'enable': 'none needed: harnesses import the real modules and stub the environment from the harness side; the runner exports AZONER_PYX12_VERIF=1 but no source in /repo reads it',
            'baseline_off_cmd': 'cd /repo && /venv/bin/python -m pytest -ra -q -p no:cacheprovider --timeout=900 --continue-on-collection-errors',
            'source_commits': [],
            'add_only': True,
        },
        'engines': [
            {'name': 'vcheck', 'path': 'vcheck', 'serves_properties': sorted(CLAIMS),
             'kind_free_text': 'runner (engine/runner.py) -> CrossHair 0.0.110 hosted in-process per obligation (engine/chworker.py, z3 5.1) '
                               'and direct z3/cvc5 queries (engine/smtq.py); native replay of every counterexample (engine/replay.py)'},
        ],
        'checks': checks,
        'notes': 'Exit codes: 0 all obligations discharged; 1 replayed counterexample (VIOLATION line); 3 inconclusive (never reported as success). '
                 'Fixed and known defects: KNOWN_FINDINGS.json.',
        'not_applicable': [{'property_id': pid, 'reason': na_reasons.get(pid, NOT_YET)} for pid in props if pid not in CLAIMS],
    }
    with open(os.path.join(ROOT, 'MANIFEST.json'), 'w') as fd:
        json.dump(man, fd, indent=1)
    print('MANIFEST.json: %d checks, %d not_applicable' % (len(checks), len(man['not_applicable'])))


if __name__ == '__main__':
    main()
