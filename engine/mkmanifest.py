"""Regenerate /verif/MANIFEST.json from the table below (kept valid at all times)."""
import json
import os

ROOT = os.path.dirname(os.path.dirname(os.path.abspath(__file__)))

CLAIMS = {
    # pid: (category, technique, level text, level note, design ref)
    'C13': ('other', 'bounded symbolic execution (CrossHair+z3) of the real recognisers + z3/cvc5 regex language equivalence',
            'Every recogniser is executed symbolically on all unicode strings of each length shard and compared with the X12 value '
            'language; the regexes the recognisers rely on are proved language-equal to the specification for strings of any length. '
            'Bounded-exhaustive by solver, not sampled: right level because the interesting inputs (short times, lone sign, leap days, '
            'multi-hyphen ranges) are rare points of an infinite domain.',
            'Trusted: CrossHair string/regex models, z3, the oracle regexes/calendar arithmetic in harness/c13.py. Bounds: see evidence.coverage.bounds_text.',
            'DESIGN.md §5 C13'),
}

NOT_YET = 'check not built yet in this round (planned: see DESIGN.md §5)'


def main():
    props = [json.loads(l)['id'] for l in open(os.path.join(ROOT, 'properties.jsonl'))]
    checks = []
    for pid in props:
        if pid not in CLAIMS:
            continue
        cat, tech, text, note, ref = CLAIMS[pid]
        checks.append({
            'property_id': pid,
            'quick_cmd': './vcheck %s --tier quick' % pid,
            'thorough_cmd': './vcheck %s --tier thorough' % pid,
            'evidence_file': 'evidence/%s.json' % pid,
            'replay_cmd_template': './vcheck replay {path}',
            'engine': 'vcheck',
            'level_claimed': {'category': cat, 'text': text, 'design_ref': ref},
            'level_note': note,
            'technique': tech,
        })
    na_reasons = {}
    p = os.path.join(ROOT, 'NOT_APPLICABLE.json')
    if os.path.exists(p):
        na_reasons = json.load(open(p))
    man = {
        'version': 1,
        'setup_cmd': './setup.sh',
        'hooks': {
            'guard': 'AZONER_PYX12_VERIF',
            'enable': 'none needed: harnesses import the real modules and stub the environment from the harness side; the runner exports AZONER_PYX12_VERIF=1 but no source in /repo reads it',
            'baseline_off_cmd': 'cd /repo && /venv/bin/python -m pytest -ra -q -p no:cacheprovider --timeout=900 --continue-on-collection-errors',
            'source_commits': [],
            'add_only': True,
        },
        'engines': [
            {'name': 'vcheck', 'path': 'vcheck', 'serves_properties': sorted(CLAIMS),
             'kind_free_text': 'runner (engine/runner.py) -> CrossHair 0.0.110 hosted in-process per obligation (engine/chworker.py, z3 5.1) '
                               'and direct z3/cvc5 queries (engine/smtq.py); native replay of every counterexample (engine/replay.py)'},
        ],
        'checks': checks,
        'notes': 'Exit codes: 0 all obligations discharged; 1 replayed counterexample (VIOLATION line); 3 inconclusive (never reported as success). '
                 'Fixed and known defects: KNOWN_FINDINGS.json.',
        'not_applicable': [{'property_id': pid, 'reason': na_reasons.get(pid, NOT_YET)} for pid in props if pid not in CLAIMS],
    }
    with open(os.path.join(ROOT, 'MANIFEST.json'), 'w') as fd:
        json.dump(man, fd, indent=1)
    print('MANIFEST.json: %d checks, %d not_applicable' % (len(checks), len(man['not_applicable'])))


if __name__ == '__main__':
    main()
