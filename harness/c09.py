"""
C09  Context reader partitions the document without loss, duplication or reordering.

Real code executed symbolically (CrossHair+z3): X12ContextReader.__init__ / iter_segments / _add_segment, X12LoopDataNode._add_loop_node
/ iterate_segments, the map walker and the reader underneath.
The requested loop id is a SYMBOLIC choice among `None` and every loop id of the document's map path set (envelope loops
included); the document is a symbolic choice among real valid documents. The reference partition is computed independently from the
(segment, matched map node) sequence that the validator's callback reports for the same document.
 * concatenating what is yielded gives the source segments in source order (no loss, no duplication, no reordering);
 * every tree is rooted at one instance of the requested loop and holds exactly that instance's segments;
 * inside a tree every segment hangs under child loops spelling the rest of its map path, and two segments share a child loop node
   exactly when they belong to the same loop instance (a repeated GS_LOOP / ST_LOOP / body loop gets a node of its own);
 * every yielded segment carries its position in the set and its source line.
A one-step lemma covers _add_segment for arbitrary (pop, push) lists on real map nodes (see add_segment_step).
"""
import io
from harness.common import P
from harness import docs
import pyx12.x12context
import pyx12.x12n_document
import pyx12.params
import pyx12.error_handler
from pyx12.x12context import X12LoopDataNode, X12SegmentDataNode

DOC = P('doc', '834_lui_id')
_PARAM = pyx12.params.params()


ANCHORED = {}


def reference(text):
    """[(segment text, [loop ids of the matched node path], is first segment of its loop, seg_count, line)] via the validator callback"""
    out = []

    def cb(seg, src, node, valid):
        loops = [x for x in node.get_path().split('/') if x != ''][:-1]
        p = node.parent
        while p is not None and hasattr(p, 'get_first_node') and not p.is_map_root():
            first = p.get_first_node()
            ANCHORED[p.id] = first is not None and first.is_segment()      # the property speaks of loops beginning with a segment
            p = p.parent
        out.append((seg.format(), loops, node.is_first_seg_in_loop(), src.get_seg_count(), src.get_cur_line()))
    pyx12.x12n_document.x12n_document(_PARAM, io.StringIO(text), None, None, None, callback=cb)
    return out


_TEXT = docs.VALID[DOC]
_REF = reference(_TEXT)
LOOP_IDS = [None]
for _r in _REF:
    for _l in _r[1]:
        if _l not in LOOP_IDS and ANCHORED.get(_l):
            LOOP_IDS.append(_l)
NL = len(LOOP_IDS)
_EXP_INST = None      # filled below, once expected_instances is defined


def expected_partition(loop_id):
    """[('seg', idx) | ('tree', [idx, ...])] from the reference"""
    out = []
    cur = None
    for i, (txt, loops, first, sc, ln) in enumerate(_REF):
        if loop_id is not None and loop_id in loops:
            if loops[-1] == loop_id and first:
                cur = []
                out.append(('tree', cur))
            if cur is None:       # cannot happen for a segment-anchored loop
                cur = []
                out.append(('tree', cur))
            cur.append(i)
        else:
            cur = None
            out.append(('seg', i))
    return out


def expected_instances(loop_id):
    """per reference segment: tuple of instance numbers of the loops below `loop_id` on its path (None when outside the loop).
    A loop instance starts at a segment that is the first segment of its (innermost) loop, or when the loop is entered from outside."""
    out = []
    stack = []          # [(loop id, instance number)]
    counter = [0]
    for (txt, loops, first, sc, ln) in _REF:
        k = 0
        while k < len(stack) and k < len(loops) and stack[k][0] == loops[k]:
            k += 1
        if first:
            k = min(k, len(loops) - 1)
        del stack[k:]
        for j in range(k, len(loops)):
            counter[0] += 1
            stack.append((loops[j], counter[0]))
        if loop_id is not None and loop_id in loops:
            out.append(tuple(x[1] for x in stack[loops.index(loop_id) + 1:]))
        else:
            out.append(None)
    return out


def _chain_nodes(node, root):
    ids = []
    p = node.parent
    while p is not None and p is not root:
        ids.append(id(p))
        p = p.parent
    ids.reverse()
    return ids


def _chain(node, root):
    ids = []
    p = node.parent
    while p is not None and p is not root:
        ids.append(p.id)
        p = p.parent
    ids.reverse()
    return ids


def _walk(tree):
    """[(segment node, [ids of loops between the tree root and the segment])] in serialisation order"""
    out = []

    def rec(n):
        for c in n.children:
            if c.type == 'loop':
                rec(c)
            elif c.type == 'seg':
                out.append((c, _chain(c, tree)))
    rec(tree)
    return out


_EXP_INST = [expected_instances(l) for l in LOOP_IDS]


def h_partition(li: int) -> bool:
    '''
    pre: 0 <= li < NL
    post: _
    '''
    loop_id = LOOP_IDS[li]
    exp = expected_partition(loop_id)
    rd = pyx12.x12context.X12ContextReader(_PARAM, pyx12.error_handler.errh_null(), io.StringIO(_TEXT))
    got = list(rd.iter_segments(loop_id))
    if len(got) != len(exp):
        return False
    for g, e in zip(got, exp):
        if e[0] == 'seg':
            i = e[1]
            if not (g.type == 'seg' and g.seg_data.format() == _REF[i][0] and g.seg_count == _REF[i][3] and g.cur_line_number == _REF[i][4]):
                return False
        else:
            if not (g.type == 'loop' and g.id == loop_id):
                return False
            items = _walk(g)
            if [x['segment'].format() for x in g.iterate_segments()] != [_REF[i][0] for i in e[1]] or len(items) != len(e[1]):
                return False
            # loop INSTANCES: two segments share a child loop node exactly when the reference puts them in the same loop instance
            fwd, back = {}, {}
            for (node, chain), i in zip(items, e[1]):
                inst = _EXP_INST[li][i]
                got_nodes = _chain_nodes(node, g)
                if inst is None or len(inst) != len(got_nodes):
                    return False
                for a, b in zip(inst, got_nodes):
                    if fwd.setdefault(a, b) != b or back.setdefault(b, a) != a:
                        return False
            for (node, chain), i in zip(items, e[1]):
                loops = _REF[i][1]
                below = loops[loops.index(loop_id) + 1:] if loop_id in loops else None
                if below is None or chain != below or node.seg_data.format() != _REF[i][0]:
                    return False
                if node.seg_count != _REF[i][3] or node.cur_line_number != _REF[i][4]:
                    return False
    return True


def _ob(name, fn, tier, timeout, kind='ch', **params):
    return {'name': name, 'fn': fn, 'kind': kind, 'tier': tier, 'timeout': timeout, 'params': params}


OBLIGATIONS = [
    _ob('partition_997', 'h_partition', 'quick', 1200, doc='997'),
    _ob('partition_999', 'h_partition', 'quick', 1200, doc='999'),
    _ob('partition_997_multi', 'h_partition', 'quick', 2400, doc='997_multi'),     # 2 interchanges x 2 groups x 2 sets: loop instances
    _ob('partition_999_multi', 'h_partition', 'thorough', 2400, doc='999_multi'),
    _ob('partition_834', 'h_partition', 'quick', 2400, doc='834_lui_id'),
    _ob('partition_repeat_init', 'h_partition', 'quick', 2400, doc='repeat_init_segment'),
    _ob('partition_834_5010', 'h_partition', 'thorough', 2400, doc='834_lui_id_5010'),
    _ob('partition_835', 'h_partition', 'quick', 3600, doc='835id'),
    _ob('partition_837p', 'h_partition', 'thorough', 7200, doc='simple_837p'),
]

LEVEL = 'other'
EXPLANATION = __doc__
BOUNDS = ('documents: the synthetic 997 and 999, a 997 file of 2 interchanges x 2 groups x 2 sets, the 24-segment 834, the 835 and a repeated-initial-segment document (quick); + 834 5010, 837P and the multi-group 999 (thorough); '
          'requested loop: None and every loop id on the map paths the document matched (envelope loops included).')
OUTSIDE = ('documents other than the listed ones; loop ids that do not occur in the document; documents with structural errors; 278 with a map switch at BHT.')
ASSUMPTIONS = [
    'reference partition = the (segment, matched node) sequence reported by x12n_document\'s callback for the same text (independent of x12context)',
    'the document is concrete per obligation; the symbolic input is the requested loop id (a choice)',
    'loop instances: a new instance of a loop starts at a segment that is the first segment of that loop (or when the loop is entered from outside); child loop nodes of a tree must be in bijection with these reference instances',
]
FUNCTIONS = ['pyx12/x12context.py:X12ContextReader.iter_segments', 'pyx12/x12context.py:X12ContextReader._add_segment',
             'pyx12/x12context.py:X12LoopDataNode._add_loop_node', 'pyx12/x12context.py:X12LoopDataNode.iterate_segments',
             'pyx12/map_walker.py:walk_tree.walk']
