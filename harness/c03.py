"""
C03  Every single injected fault is rejected and localised.

Real code executed symbolically (CrossHair+z3): the whole x12n_document pipeline with the 997 / 999 sink.
One fault of the catalogue is injected into a real conformant document at a SYMBOLIC (segment, element) position chosen among the body
segments; which faults are applicable there, and the standard code each must draw, is decided from the REAL map node the segment
matched in the unfaulted document (element usage, data type, lengths, code list, number of elements), obtained through the
validator's callback at import.
Oracle: the verdict is false; the acknowledgement carries an AK3/IK3 for that segment id at that position in the set and (for element
faults) an AK4/IK4 with that element position and the catalogue code; the set is rejected; for faults that do not alter how
neighbouring segments are matched no other segment is reported.
The element-level half of the catalogue is decided for symbolic definitions and values in C15, the syntax-note half in C14; this
property adds localisation through the pipeline.
"""
import io
from harness.common import P
from harness import docs
import pyx12.x12n_document
import pyx12.params

docs.freeze_clock()
DOC = P('doc', 'repeat_init_segment')
FAULT = P('fault', 'too_long')
_PARAM = pyx12.params.params()
_TEXT = docs.VALID[DOC]
_SEGS = docs.split_segments(_TEXT)


def _reference():
    out = []

    def cb(seg, src, node, valid):
        out.append((seg.get_seg_id(), node, src.get_seg_count(), src.get_cur_line()))
    pyx12.x12n_document.x12n_document(_PARAM, io.StringIO(_TEXT), None, None, None, callback=cb)
    return out


_REF = _reference()
BODY = [i for i, r in enumerate(_REF) if r[0] not in ('ISA', 'GS', 'ST', 'SE', 'GE', 'IEA')]
NB = len(BODY)
K3, K4 = ('AK3', 'AK4') if '*00401*' in _SEGS[0] else ('IK3', 'IK4')


def _dtype(el):
    return el.root.data_elements.get_by_elem_num(el.data_ele)


def plan(i, j):
    """The faulted element list of segment i for FAULT at element j (1-based), and the expected code - or None when not applicable."""
    seg_id, node, seg_count, line = _REF[i]
    e = _SEGS[i].split('*')
    if FAULT == 'too_many_elements':
        n = len(node.children)
        e = e + [''] * (n + 1 - len(e)) + ['X']
        return e, (n + 1, '3')
    if j > len(node.children):
        return None
    child = node.children[j - 1]
    if child.is_composite() or (seg_id == 'HL' and j == 3) or (seg_id == 'ENT' and j == 2):
        return None      # composites: outside; HL03 / ENT02 select the map node (a fault there alters how the segment is matched)
    de = _dtype(child)
    cur = e[j] if j < len(e) else ''
    if FAULT == 'too_long':
        if child.usage == 'N' or cur == '' or de['data_type'] not in ('AN', 'ID') or child.valid_codes or child.external_codes:
            return None
        e[j] = (cur + 'X.-Y' * 100)[:de['max_len'] + 1]        # punctuation counts towards the length of a string
        return e, (j, '5')
    if FAULT == 'bad_code':
        if child.usage == 'N' or not child.valid_codes or j == 1 or cur == '':
            return None
        bad = 'Q' * max(de['min_len'], 1)
        if bad in child.valid_codes or len(bad) > de['max_len']:
            return None
        e[j] = bad
        return e, (j, '7')
    if FAULT == 'wrong_class':
        if child.usage == 'N' or cur == '' or de['data_type'] not in ('N0', 'N2', 'R', 'DT', 'D8', 'TM') or child.valid_codes:
            return None
        e[j] = ('A' * len(cur))[:max(de['max_len'], 1)]
        return e, (j, {'DT': '8', 'D8': '8', 'TM': '9'}.get(de['data_type'], '6'))
    if FAULT == 'missing_required':
        if child.usage != 'R' or j == 1 or cur == '':
            return None
        e[j] = ''
        return e, (j, '1')
    if FAULT == 'not_used':
        if child.usage != 'N':
            return None
        e = e + [''] * (j + 1 - len(e))
        e[j] = 'X'
        return e, (j, '10')
    if FAULT == 'date_format_mismatch':
        # a date written in a format other than the one its qualifier (the preceding element) announces: D8 with a range, RD8 with a single date
        if child.usage == 'N' or cur == '' or j < 2 or de['data_type'] != 'AN' or j - 1 >= len(e):
            return None
        prev = node.children[j - 2]
        if prev.is_composite() or prev.data_ele != '1250':
            return None
        if e[j - 1] == 'D8' and len(cur) == 8:
            e[j] = cur + '-' + cur
        elif e[j - 1] == 'RD8' and len(cur) == 17:
            e[j] = cur[:8]
        else:
            return None
        return e, (j, '8')
    raise ValueError(FAULT)


def h_fault(b: int, j: int) -> bool:
    '''
    pre: 0 <= b < NB and 1 <= j <= 6
    pre: FAULT != 'too_many_elements' or j == 1
    post: _
    '''
    i = BODY[b]
    p = plan(i, j)
    if p is None:
        return True          # this fault is not applicable at this position
    elems, (pos, code) = p
    seg_id, node, seg_count, line = _REF[i]
    segs = list(_SEGS)
    segs[i] = '*'.join(elems).rstrip('*') if FAULT != 'too_many_elements' else '*'.join(elems)
    r = docs.validate(docs.join_segments(segs))
    if r.exc is not None or r.verdict is not False:
        return False
    ack = [l.rstrip('~').split('*') for l in r.ack.split('\n') if l]
    k3 = [a for a in ack if a[0] == K3]
    k4 = [a for a in ack if a[0] == K4]
    located = [a for a in k3 if a[1] == seg_id and a[2] == '%d' % seg_count]
    ele = [a for a in k4 if a[1].split(':')[0] == '%d' % pos and a[3] == code]
    others = [a for a in k3 if not (a[1] == seg_id and a[2] == '%d' % seg_count)]
    rejected = [a for a in ack if a[0] in ('AK5', 'IK5')][0][1] == 'R'
    return len(located) >= 1 and len(ele) >= 1 and others == [] and rejected


STRUCT = ('unknown_segment', 'delete_required', 'duplicate_over_max')


def h_structural(b: int) -> bool:
    '''
    pre: 0 <= b < NB
    post: _
    '''
    i = BODY[b]
    seg_id, node, seg_count, line = _REF[i]
    segs = list(_SEGS)
    if FAULT == 'unknown_segment':
        segs.insert(i, 'ZZZ*1')
        exp = ('ZZZ', seg_count, ('1', '2'))      # unrecognised / unexpected segment
    elif FAULT == 'delete_required':
        if node.usage != 'R' or node.is_first_seg_in_loop():
            return True
        del segs[i]
        exp = (seg_id, None, ('3',))                # mandatory segment missing
    else:
        mx = node.get_max_repeat()
        same = len([k for k in BODY if _REF[k][1] is node])
        if mx > 3 or node.is_first_seg_in_loop():
            return True
        for _ in range(mx - same + 1):
            segs.insert(i, _SEGS[i])
        exp = (seg_id, None, ('5',))                # exceeds maximum use
    r = docs.validate(docs.join_segments(segs))
    if r.exc is not None or r.verdict is not False:
        return False
    ack = [l.rstrip('~').split('*') for l in r.ack.split('\n') if l]
    k3 = [a for a in ack if a[0] == K3 and a[1] == exp[0] and len(a) > 4 and a[4] in exp[2] and (exp[1] is None or a[2] == '%d' % exp[1])]
    rejected = [a for a in ack if a[0] in ('AK5', 'IK5')][0][1] == 'R'
    return len(k3) >= 1 and rejected


def _loop_path(node):
    return node.parent.get_path()


def _instance_end(i):
    """index after the last segment of the loop instance that starts at body index i"""
    lp = _loop_path(_REF[i][1])
    k = i + 1
    while k < len(_REF) and (_REF[k][1].get_path().startswith(lp + '/')) and not (_REF[k][1] is _REF[i][1]):
        k += 1
    return k


HEADS = [i for i in BODY if _REF[i][1].is_first_seg_in_loop() and _REF[i][1].parent.get_max_repeat() <= 2]
NH = len(HEADS)


def h_loop_repeat(h: int, interleave: bool) -> bool:
    '''
    pre: 0 <= h < max(NH, 1)
    post: _
    '''
    # a loop repeated beyond its limit: the extra instance directly after the original, or - interleaved - after the same-ordinal sibling loop
    # instance that follows it (2310A / 2310B, 2010BA / 2010BB ...); the loop head of the extra instance is reported with code 4 and nothing else is
    if NH == 0:
        return True
    i = HEADS[h]
    seg_id, node, seg_count, line = _REF[i]
    loop = node.parent
    end = _instance_end(i)
    have = len([k for k in HEADS if _REF[k][1] is node])
    copies = loop.get_max_repeat() - have + 1
    at = end
    if interleave:
        nxt = _REF[end][1] if end < len(_REF) else None
        if nxt is None or not nxt.is_first_seg_in_loop() or nxt.parent.parent is not loop.parent or nxt is node or nxt.parent.pos != loop.pos:
            return True
        at = _instance_end(end)
    segs = list(_SEGS)
    for _ in range(copies):
        segs[at:at] = _SEGS[i:end]
    r = docs.validate(docs.join_segments(segs))
    if r.exc is not None or r.verdict is not False:
        return False
    ack = [l.rstrip('~').split('*') for l in r.ack.split('\n') if l]
    k3 = [a for a in ack if a[0] == K3]
    hit = [a for a in k3 if a[1] == seg_id and len(a) > 4 and a[4] == '4']
    others = [a for a in k3 if not (a[1] == seg_id and len(a) > 4 and a[4] == '4')]
    return len(hit) >= 1 and others == []


def _ob(name, fn, tier, timeout, kind='ch', **params):
    return {'name': name, 'fn': fn, 'kind': kind, 'tier': tier, 'timeout': timeout, 'params': params}


OBLIGATIONS = []
for f in ('too_long', 'bad_code', 'wrong_class', 'missing_required', 'not_used', 'too_many_elements', 'date_format_mismatch'):
    OBLIGATIONS.append(_ob('element_%s_ris' % f, 'h_fault', 'quick', 3600, fault=f, doc='repeat_init_segment'))
    OBLIGATIONS.append(_ob('element_%s_834' % f, 'h_fault', 'thorough', 7200, fault=f, doc='834_lui_id'))
    OBLIGATIONS.append(_ob('element_%s_834_5010' % f, 'h_fault', 'thorough', 7200, fault=f, doc='834_lui_id_5010'))
OBLIGATIONS.append(_ob('loop_repeat_ris', 'h_loop_repeat', 'quick', 3600, doc='repeat_init_segment'))
OBLIGATIONS.append(_ob('loop_repeat_834', 'h_loop_repeat', 'thorough', 7200, doc='834_lui_id'))
OBLIGATIONS.append(_ob('loop_repeat_837p', 'h_loop_repeat', 'thorough', 14400, doc='simple_837p'))
for f in STRUCT:
    OBLIGATIONS.append(_ob('structural_%s_ris' % f, 'h_structural', 'quick', 3600, fault=f, doc='repeat_init_segment'))
    OBLIGATIONS.append(_ob('structural_%s_834' % f, 'h_structural', 'thorough', 7200, fault=f, doc='834_lui_id'))

LEVEL = 'other'
EXPLANATION = __doc__
BOUNDS = ('quick: the 19-segment repeat_init_segment document, every body segment x element position 1..6 x seven element fault kinds (too long, bad code, wrong class, missing required, not used, too many elements, date format other than the one its qualifier announces), every body segment x three structural fault kinds; '
          'thorough: the 834 4010 and 5010 documents as well.')
OUTSIDE = ('faults in composite components; broken syntax notes (C14) and impossible dates / times by value (C13, C15) are decided there for symbolic values and only localised here through '
           'the wrong_class kind; documents with several sets (sibling sets stay accepted: C05); large documents.')
ASSUMPTIONS = [
    'fault applicability and the expected code come from the real map node the segment matched in the unfaulted document',
    'the document is concrete; the symbolic inputs are the fault position (segment, element) - choice enumeration under the tracer',
    'clock and RNG frozen',
]
FUNCTIONS = ['pyx12/x12n_document.py:x12n_document', 'pyx12/map_walker.py:walk_tree.walk', 'pyx12/map_if.py:segment_if.is_valid', 'pyx12/map_if.py:element_if.is_valid',
             'pyx12/error_handler.py:err_handler.*', 'pyx12/error_997.py:error_997_visitor.visit_seg', 'pyx12/error_997.py:error_997_visitor.visit_ele']
