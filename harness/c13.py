"""
C13  Data-type recognisers accept exactly the X12 value languages.

Engine A (CrossHair): the real pyx12.validation functions are executed on symbolic strings; the oracle is the
X12 value language written as a regex (one z3 regex-membership, no fork) plus calendar arithmetic.
No harness declares `raises:` - any exception is a counterexample.
String length is the shard parameter N (idiom 12).
"""
import re
from harness.common import P
from pyx12.validation import IsValidDataType, is_valid_date, is_valid_time, match_re, not_match_re

N = P('n', 6)          # exact length for *_len harnesses
MAXN = P('maxn', 4)    # upper bound for <= harnesses
TYP = P('typ', 'N0')
CS = P('cs', 'B')
ICVN = P('icvn', '00401')

# ---------------------------------------------------------------- oracles (from the X12 definitions)
TM_SPEC = re.compile(r'([01][0-9]|2[0-3])[0-5][0-9]([0-5][0-9][0-9]{0,2})?')
HHMM_SPEC = re.compile(r'([01][0-9]|2[0-3])[0-5][0-9]')
DIG = {n: re.compile('[0-9]{%d}' % n) for n in (6, 8, 12)}
N_SPEC = re.compile(r'-?[0-9]+')
R_SPEC = re.compile(r'-?([0-9]+(\.[0-9]+)?|\.[0-9]+)')
BASIC = r'A-Z0-9!"&\'()*+,\-./:;?= '
EXT = BASIC + r'a-z%~@\[\]_{}\\|<>#$'
EXT5 = EXT + r'\^`'
CHARSET = {('B', '00401'): BASIC, ('B', '00501'): BASIC, ('E', '00401'): EXT, ('E', '00501'): EXT5}
CS_SPEC = re.compile('[%s]*' % CHARSET[(CS, ICVN)])


def ymd_ok(y: int, m: int, d: int) -> bool:
    if y < 1800 or m < 1 or m > 12 or d < 1:
        return False
    if m == 2:
        leap = (y % 4 == 0) and (y % 100 != 0 or y % 400 == 0)
        return d <= (29 if leap else 28)
    if m == 4 or m == 6 or m == 9 or m == 11:
        return d <= 30
    return d <= 31


def spec_d8(s: str) -> bool:
    if len(s) != 8 or DIG[8].fullmatch(s) is None:
        return False
    return ymd_ok(int(s[0:4]), int(s[4:6]), int(s[6:8]))


def spec_d6(s: str) -> bool:
    if len(s) != 6 or DIG[6].fullmatch(s) is None:
        return False
    yy = int(s[0:2])
    return ymd_ok((2000 if yy < 50 else 1900) + yy, int(s[2:4]), int(s[4:6]))


def spec_dt12(s: str) -> bool:
    if len(s) != 12 or DIG[12].fullmatch(s) is None:
        return False
    return ymd_ok(int(s[0:4]), int(s[4:6]), int(s[6:8])) and HHMM_SPEC.fullmatch(s[8:12]) is not None


# ---------------------------------------------------------------- harnesses
def h_tm(s: str) -> bool:
    '''
    pre: len(s) == N
    post: _
    '''
    return IsValidDataType(s, 'TM', CS, ICVN) == (TM_SPEC.fullmatch(s) is not None)


def h_d8(s: str) -> bool:
    '''
    pre: len(s) == 8
    post: _
    '''
    return IsValidDataType(s, 'D8', CS, ICVN) == spec_d8(s)


def h_d8_otherlen(s: str) -> bool:
    '''
    pre: len(s) <= 9 and len(s) != 8
    post: _
    '''
    return IsValidDataType(s, 'D8', CS, ICVN) is False


def h_d6(s: str) -> bool:
    '''
    pre: len(s) == 6
    post: _
    '''
    return IsValidDataType(s, 'D6', CS, ICVN) == spec_d6(s)


def h_d6_otherlen(s: str) -> bool:
    '''
    pre: len(s) <= 7 and len(s) != 6
    post: _
    '''
    return IsValidDataType(s, 'D6', CS, ICVN) is False


def h_dt6(s: str) -> bool:
    '''
    pre: len(s) == 6
    post: _
    '''
    return IsValidDataType(s, 'DT', CS, ICVN) == spec_d6(s)


def h_dt8(s: str) -> bool:
    '''
    pre: len(s) == 8
    post: _
    '''
    return IsValidDataType(s, 'DT', CS, ICVN) == spec_d8(s)


def h_dt12(s: str) -> bool:
    '''
    pre: len(s) == 12
    post: _
    '''
    return IsValidDataType(s, 'DT', CS, ICVN) == spec_dt12(s)


def h_dt_otherlen(s: str) -> bool:
    '''
    pre: len(s) <= 13 and len(s) != 6 and len(s) != 8 and len(s) != 12
    post: _
    '''
    return IsValidDataType(s, 'DT', CS, ICVN) is False


def h_rd8_short(s: str) -> bool:
    '''
    pre: len(s) <= MAXN
    post: _
    '''
    # shorter than 17 characters: never a range, and never an exception
    return IsValidDataType(s, 'RD8', CS, ICVN) is False


RD8_FIXED = ('20240229', '20230229', '1999123-', '18000101')


NOHY8 = re.compile('[^-]{8}')
J = P('j', 0)


def h_rd8_left(a: str) -> bool:
    '''
    pre: len(a) == 8
    pre: NOHY8.fullmatch(a) is not None
    post: _
    '''
    b = RD8_FIXED[J]
    return IsValidDataType(a + '-' + b, 'RD8', CS, ICVN) == (spec_d8(a) and spec_d8(b))


def h_rd8_right(b: str) -> bool:
    '''
    pre: len(b) == 8
    pre: NOHY8.fullmatch(b) is not None
    post: _
    '''
    a = RD8_FIXED[J]
    return IsValidDataType(a + '-' + b, 'RD8', CS, ICVN) == (spec_d8(a) and spec_d8(b))


RD8_17 = re.compile('[0-9]{8}-[0-9]{8}')


def h_rd8_full(s: str) -> bool:
    '''
    pre: len(s) == 17
    pre: RD8_17.fullmatch(s) is not None
    post: _
    '''
    return IsValidDataType(s, 'RD8', CS, ICVN) == (spec_d8(s[0:8]) and spec_d8(s[9:17]))


NOHY = re.compile('[^-]*')


def h_rd8_nohyphen(s: str) -> bool:
    '''
    pre: len(s) == 17
    pre: NOHY.fullmatch(s) is not None
    post: _
    '''
    return IsValidDataType(s, 'RD8', CS, ICVN) is False


def h_rd8_hyphen_elsewhere(a: str, b: str) -> bool:
    '''
    pre: len(a) + len(b) == 16 and len(a) != 8
    pre: NOHY.fullmatch(a) is not None and NOHY.fullmatch(b) is not None
    post: _
    '''
    return IsValidDataType(a + '-' + b, 'RD8', CS, ICVN) is False


def h_rd8_two_hyphens(a: str, b: str, c: str) -> bool:
    '''
    pre: len(a) + len(b) + len(c) == 15
    pre: NOHY.fullmatch(a) is not None and NOHY.fullmatch(b) is not None and NOHY.fullmatch(c) is not None
    post: _
    '''
    return IsValidDataType(a + '-' + b + '-' + c, 'RD8', CS, ICVN) is False


def h_rd8_nondigit_left(a: str, b: str) -> bool:
    '''
    pre: len(a) == 8 and len(b) == 8
    pre: NOHY8.fullmatch(a) is not None and NOHY8.fullmatch(b) is not None
    pre: DIG[8].fullmatch(a) is None
    post: _
    '''
    return IsValidDataType(a + '-' + b, 'RD8', CS, ICVN) is False


def h_rd8_nondigit_right(a: str, b: str) -> bool:
    '''
    pre: len(a) == 8 and len(b) == 8
    pre: NOHY8.fullmatch(a) is not None and NOHY8.fullmatch(b) is not None
    pre: DIG[8].fullmatch(b) is None
    post: _
    '''
    return IsValidDataType(a + '-' + b, 'RD8', CS, ICVN) is False


def h_num(s: str) -> bool:
    '''
    pre: len(s) <= MAXN
    post: _
    '''
    spec = R_SPEC if TYP == 'R' else N_SPEC
    return IsValidDataType(s, TYP, CS, ICVN) == (spec.fullmatch(s) is not None)


def h_str(s: str) -> bool:
    '''
    pre: len(s) <= MAXN
    post: _
    '''
    return IsValidDataType(s, TYP, CS, ICVN) == (CS_SPEC.fullmatch(s) is not None)


UNKNOWN_TYPES = ('XX', 'D7', 'TN', 'A', 'ZZZ', 'dt', 'Id')


def h_unknown(s: str, j: int) -> bool:
    '''
    pre: len(s) <= 2
    pre: 0 <= j < 7
    post: _
    '''
    # a data type the recogniser does not know: rejected, never an exception
    return IsValidDataType(s, UNKNOWN_TYPES[j], CS, ICVN) is False


def h_nonstr(n: int) -> bool:
    '''
    post: _
    '''
    return IsValidDataType(n, TYP, CS, ICVN) is False


def _ob(name, fn, tier, timeout, **params):
    return {'name': name, 'fn': fn, 'kind': 'ch', 'tier': tier, 'timeout': timeout, 'params': params}


OBLIGATIONS = []
for n in range(0, 10):
    OBLIGATIONS.append(_ob('tm_len%d' % n, 'h_tm', 'quick' if n <= 8 else 'thorough', 400, n=n))
OBLIGATIONS += [
    _ob('d8_len8', 'h_d8', 'quick', 300),
    _ob('d8_otherlen', 'h_d8_otherlen', 'quick', 120),
    _ob('d6_len6', 'h_d6', 'quick', 300),
    _ob('d6_otherlen', 'h_d6_otherlen', 'quick', 120),
    _ob('dt_len6', 'h_dt6', 'quick', 300),
    _ob('dt_len8', 'h_dt8', 'quick', 300),
    _ob('dt_len12', 'h_dt12', 'thorough', 900),
    _ob('dt_otherlen', 'h_dt_otherlen', 'quick', 200),
    _ob('rd8_short', 'h_rd8_short', 'quick', 200, maxn=5),
] + [_ob('rd8_left_%d' % j, 'h_rd8_left', 'quick', 400, j=j) for j in range(4)] + [
    _ob('rd8_right_%d' % j, 'h_rd8_right', 'quick', 400, j=j) for j in range(4)] + [
    _ob('rd8_17_nohyphen', 'h_rd8_nohyphen', 'quick', 300),
    _ob('rd8_17_hyphen_elsewhere', 'h_rd8_hyphen_elsewhere', 'quick', 400),
    _ob('rd8_17_two_hyphens', 'h_rd8_two_hyphens', 'thorough', 900),
    _ob('rd8_17_nondigit_left', 'h_rd8_nondigit_left', 'thorough', 900),
    _ob('rd8_17_nondigit_right', 'h_rd8_nondigit_right', 'thorough', 1200),
    _ob('rd8_full17', 'h_rd8_full', 'thorough', 1500),
    _ob('nonstr', 'h_nonstr', 'quick', 60, typ='AN'),
    _ob('unknown_type', 'h_unknown', 'quick', 120),
]
for typ in ('N0', 'N2', 'R'):
    OBLIGATIONS.append(_ob('num_%s_le4' % typ, 'h_num', 'quick', 240, typ=typ, maxn=4))
    OBLIGATIONS.append(_ob('num_%s_le6' % typ, 'h_num', 'thorough', 900, typ=typ, maxn=6))
for typ in ('ID', 'AN'):
    for cs in ('B', 'E'):
        for icvn in ('00401', '00501'):
            OBLIGATIONS.append(_ob('str_%s_%s_%s_le2' % (typ, cs, icvn), 'h_str', 'quick', 240,
                                   typ=typ, cs=cs, icvn=icvn, maxn=2))
            OBLIGATIONS.append(_ob('str_%s_%s_%s_le4' % (typ, cs, icvn), 'h_str', 'thorough', 900,
                                   typ=typ, cs=cs, icvn=icvn, maxn=4))


# ---------------------------------------------------------------- Engine B: the recognisers' regexes as languages
import pyx12.validation as _V


def _smt_lang(name, spec_pat, mode):
    """
    mode 'full'     : L(pattern used by match_re as search+group(0)==val) == L(spec)       (rec_N, rec_R)
    mode 'badchar'  : rec matches one character  <=>  the character is outside the spec set  (rec_ID_*)
    mode 'contains' : not_match_re(val) is False  <=>  val in spec*                           (rec_DT, rec_TM)
    The pattern object is read from the imported /repo module on every run.
    """
    import z3
    from engine import smtq
    q = smtq.Q()
    rec = getattr(_V, name)
    ra = smtq.re_to_z3(rec)
    rb = smtq.re_to_z3(re.compile(spec_pat, re.S))
    any_ = z3.Star(z3.AllChar(z3.ReSort(z3.StringSort())))
    if mode == 'full':
        verdict, w = smtq.lang_diff_witness(q, ra, rb, what='%s == %s' % (rec.pattern, spec_pat))
        call = '_replay_full(%r, %r, %%r)' % (name, spec_pat)
    elif mode == 'badchar':
        s = z3.String('s')
        res, model = q.check([z3.Length(s) == 1, z3.InRe(s, ra) == z3.InRe(s, rb)], what='%s complements [%s]' % (name, spec_pat))
        verdict = {'unsat': 'confirmed', 'sat': 'refuted'}.get(res, 'unknown')
        w = model[s].as_string() if model is not None else None
        call = '_replay_badchar(%r, %r, %%r)' % (name, spec_pat)
    else:
        has_bad = z3.Concat(any_, ra, any_)
        verdict, w = smtq.lang_diff_witness(q, z3.Complement(has_bad), rb, what='no %s match <=> %s' % (name, spec_pat))
        call = '_replay_contains(%r, %r, %%r)' % (name, spec_pat)
    out = {'verdict': verdict, 'queries': q.queries, 'solver_time_s': q.solver_time_s,
           'sample': {'pattern': rec.pattern, 'flags': rec.flags, 'spec': spec_pat, 'mode': mode, 'solver_log': q.log},
           'functions': ['pyx12/validation.py:%s (compiled pattern object)' % name]}
    if verdict == 'refuted':
        out['call'] = call % smtq.z3str_to_py(w)
        out['detail'] = 'languages differ on %r' % w
    return out


def _replay_full(name, spec_pat, w):
    short = {'rec_N': 'N', 'rec_R': 'R'}[name]
    return match_re(short, w) == (re.compile(spec_pat, re.S).fullmatch(w) is not None)


def _replay_badchar(name, spec_pat, w):
    rec = getattr(_V, name)
    return (rec.search(w) is not None) != (re.compile(spec_pat, re.S).fullmatch(w) is not None)


def _replay_contains(name, spec_pat, w):
    short = {'rec_DT': 'DT', 'rec_TM': 'TM'}[name]
    return (not not_match_re(short, w)) == (re.compile(spec_pat, re.S).fullmatch(w) is not None)


def smt_rec_N():
    return _smt_lang('rec_N', N_SPEC.pattern, 'full')


def smt_rec_R():
    return _smt_lang('rec_R', R_SPEC.pattern, 'full')


def smt_rec_ID_B():
    return _smt_lang('rec_ID_B', '[%s]' % BASIC, 'badchar')


def smt_rec_ID_E():
    return _smt_lang('rec_ID_E', '[%s]' % EXT, 'badchar')


def smt_rec_ID_E5():
    return _smt_lang('rec_ID_E5', '[%s]' % EXT5, 'badchar')


def smt_rec_DT():
    return _smt_lang('rec_DT', '[0-9]*', 'contains')


def smt_rec_TM():
    return _smt_lang('rec_TM', '[0-9]*', 'contains')


for _n in ('rec_N', 'rec_R', 'rec_ID_B', 'rec_ID_E', 'rec_ID_E5', 'rec_DT', 'rec_TM'):
    OBLIGATIONS.append({'name': 'smt_' + _n, 'fn': 'smt_' + _n, 'kind': 'smt', 'tier': 'quick', 'timeout': 120, 'params': {}})

LEVEL = 'other'
EXPLANATION = (
    'Bounded symbolic execution (CrossHair 0.0.110 + z3) of the real pyx12.validation.IsValidDataType / is_valid_date / '
    'is_valid_time / match_re / not_match_re on symbolic strings, one obligation per (data type, length shard); the oracle is '
    'the X12 value language (regex + Gregorian arithmetic). Each obligation is discharged only on "Confirmed over all paths" and '
    'a replaying reachability witness. Engine B: the compiled regex objects of pyx12.validation are translated to z3 regexes and '
    'proved language-equal to the specification regexes for strings of ANY length (unsat of the symmetric difference), cross-checked with cvc5.')
BOUNDS = ('TM: every unicode string with |s| <= 6 (quick) / <= 9 (thorough); D8/D6/DT: every string of the accepting lengths 6, 8 (12 thorough) '
          'and every string of any other length <= 9/7/13; RD8: every string with |s| <= 5, every a-b with one side an arbitrary 8-char '
          'hyphen-free string and the other from a 4-element set, every 17-char string with no hyphen / with its single hyphen not in the middle; '
          'thorough adds all digits-hyphen-digits 17-char strings, non-digit halves and two-hyphen 17-char strings; N*/R: |s| <= 4 (6 thorough) '
          'plus unbounded regex equivalence; ID/AN: |s| <= 2 (4 thorough) for B/E x 00401/00501 plus unbounded character-class equivalence.')
OUTSIDE = ('strings longer than the stated lengths for the CrossHair obligations (the regex-language obligations are unbounded); 17-character RD8 '
           'candidates with three or more hyphens; code points above U+2FFFF in Engine B; charset values other than B/E (not a setting the params allow).')
ASSUMPTIONS = [
    'oracle: TM = ([01][0-9]|2[0-3])[0-5][0-9]([0-5][0-9][0-9]{0,2})?, N = -?[0-9]+, R = -?([0-9]+(\\.[0-9]+)?|\\.[0-9]+), '
    'dates by Gregorian arithmetic with year >= 1800, D6 century window yy<50 -> 20yy else 19yy',
    'character sets: basic = A-Z 0-9 ! " & \' ( ) * + , - . / : ; ? = space; extended adds a-z % ~ @ [ ] _ { } \\ | < > # $; 00501 extended adds ^ and `',
    'CrossHair models of str/re are trusted; every counterexample is replayed natively before it is reported',
]
FUNCTIONS = ['pyx12/validation.py:IsValidDataType', 'pyx12/validation.py:is_valid_date', 'pyx12/validation.py:is_valid_time',
             'pyx12/validation.py:match_re', 'pyx12/validation.py:not_match_re']
