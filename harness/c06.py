"""
C06  Every acknowledgement written is itself a complete, well-formed interchange.

Real code executed symbolically (CrossHair+z3): error_997_visitor / error_999_visitor (+ X12Writer), driven over error trees built by
the real err_handler API from a symbolic shape (as in C05), then the REAL X12Reader reads the acknowledgement back, and the REAL
map_index / x12n_document take it as input (self-validation).
Oracle: SE01 = segments ST..SE, SE02 = ST02, ST02 unique, GE01 = number of sets, GE02 = GS06, IEA01 = 1, IEA02 = ISA13, ISA is 106
characters; the reader reports no envelope error; echoed values (offending value, control numbers) chosen from a hostile table
containing ~ * : ^ never change the number of segments or elements; the acknowledgement selects the 997 / 999 map and is accepted.
"""
import io
from harness.common import P
from harness.errtree import SetShape, GroupShape, build_tree, Sink, ack_segments
from harness.c05 import run_ack
from harness import docs
from pyx12.x12file import X12Reader
import pyx12.map_index
from harness.common import KNOWN

docs.freeze_clock()
ACK = P('ack', '997')
HOSTILE = ('ZZ', 'A*B', 'A~B', 'A:B', 'A^B', '*', '~', ' x ', 'A:B*C~D')
NHOST = len(HOSTILE)
CTLS = ('0001', '00*1', '0:1', 'A~B', '0001 ')
_INDEX = pyx12.map_index.map_index()


def envelope_ok(text):
    segs = ack_segments(text)
    ids = [s[0] for s in segs]
    if ids[0] != 'ISA' or ids[-1] != 'IEA' or ids.count('ISA') != 1 or ids.count('IEA') != 1 or ids.count('GS') != 1 or ids.count('GE') != 1:
        return False
    first_line = text.split('\n')[0]
    if len(first_line) != 106:
        return False
    isa, gs, ge, iea = segs[0], segs[1], segs[-2], segs[-1]
    if ge[0] != 'GE' or ge[2] != gs[6] or iea[1] != '1' or iea[2] != isa[13]:
        return False
    st_ids = []
    i = 2
    n_sets = 0
    while i < len(segs) - 2:
        if segs[i][0] != 'ST':
            return False
        j = i
        while j < len(segs) and segs[j][0] != 'SE':
            j += 1
        if j >= len(segs):
            return False
        if segs[j][1] != '%d' % (j - i + 1) or segs[j][2] != segs[i][2] or segs[i][2] in st_ids:
            return False
        st_ids.append(segs[i][2])
        n_sets += 1
        i = j + 1
    return ge[1] == '%d' % n_sets


def reader_errors(text):
    r = X12Reader(io.StringIO(text))
    errs = []
    for _s in r:
        errs.extend(r.pop_errors())
    r.cleanup()
    errs.extend(r.pop_errors())
    return [e for e in errs if e[0] in ('isa', 'gs', 'st')]


def _shape(two_groups, two_sets, e_ele, e_seg, closed1, gs_err, bad, ctl):
    s1 = SetShape(ctl, seg_err=e_seg, ele_err=e_ele, closed=closed1, bad_value=bad)
    sets = [s1] + ([SetShape('0002')] if two_sets else [])
    groups = [GroupShape('17', sets, gs_err=('6' if gs_err else None))]
    if two_groups:
        groups.append(GroupShape('18', [SetShape('0007', ele_err=True, bad_value=bad)], fic='HP', vriic='004010X091A1'))
    return groups


def _build(groups, more=()):
    return build_tree(groups, icvn=('00401' if ACK == '997' else '00501'), st_vriic=(None if ACK == '997' else '005010X222A1'), more=more)


def h_counts(two_groups: bool, two_sets: bool, e_ele: bool, e_seg: bool, closed1: bool, gs_err: bool, n_isa: int) -> bool:
    '''
    pre: 1 <= n_isa <= 3
    pre: n_isa == 1 or not (two_sets or e_ele or e_seg or gs_err or not closed1)
    post: _
    '''
    # n_isa interchanges in the input: the further ones carry 2 resp. 1 clean groups
    more = [[GroupShape('21', [SetShape('0021')]), GroupShape('22', [SetShape('0022')])], [GroupShape('31', [SetShape('0031')])]][:n_isa - 1]
    errh, src = _build(_shape(two_groups, two_sets, e_ele, e_seg, closed1, gs_err, 'ZZ', '0001'), more)
    text = run_ack(errh, src, ACK)
    return envelope_ok(text) and reader_errors(text) == []


def h_injection(bi: int, ci: int, two_groups: bool) -> bool:
    '''
    pre: 0 <= bi < NHOST and 0 <= ci < 5
    post: _
    '''
    # values copied from the input (offending value, set control number) never add or split elements or segments
    bad, ctl = HOSTILE[bi], CTLS[ci]
    if KNOWN('c06-control-number-delimiters') and [d for d in '~*:' if d in ctl]:
        return True
    errh, src = _build(_shape(two_groups, False, True, False, True, False, bad, ctl))
    text = run_ack(errh, src, ACK)
    ref_errh, ref_src = _build(_shape(two_groups, False, True, False, True, False, 'ZZ', '0001'))
    ref = run_ack(ref_errh, ref_src, ACK)
    a, b = ack_segments(text), ack_segments(ref)
    k4 = 'AK4' if ACK == '997' else 'IK4'
    same_shape = [s[0] for s in a] == [s[0] for s in b] and \
        all([len(x) == len(y) or (x[0] == k4 and len(x) == len(y) - 1) for x, y in zip(a, b)])
    return same_shape and envelope_ok(text) and reader_errors(text) == []


def h_selects_map(dummy: bool) -> bool:
    '''
    post: _
    '''
    errh, src = _build(_shape(False, False, True, False, True, False, 'ZZ', '0001'))
    segs = ack_segments(run_ack(errh, src, ACK))
    isa, gs = segs[0], segs[1]
    fn = _INDEX.get_filename(isa[12], gs[8], gs[1])
    return fn == ('997.4010.xml' if ACK == '997' else '999.5010X231.A1.xml') or (ACK == '999' and fn == '999.5010.xml')


def h_self_validation(two_sets: bool, e_ele: bool, e_seg: bool, gs_err: bool) -> bool:
    '''
    post: _
    '''
    # fed back to the validator the acknowledgement is accepted (the echoed values fit the 997 / 999 element definitions here)
    errh, src = _build(_shape(False, two_sets, e_ele, e_seg, True, gs_err, 'ZZ', '0001'))
    text = run_ack(errh, src, ACK)
    r = docs.validate(text, ack=False)
    return r.exc is None and r.verdict is True


def _ob(name, fn, tier, timeout, kind='ch', **params):
    return {'name': name, 'fn': fn, 'kind': kind, 'tier': tier, 'timeout': timeout, 'params': params}


OBLIGATIONS = []
for a in ('997', '999'):
    OBLIGATIONS += [
        _ob('counts_%s' % a, 'h_counts', 'quick', 1500, ack=a),
        _ob('injection_%s' % a, 'h_injection', 'quick', 1500, ack=a),
        _ob('selects_map_%s' % a, 'h_selects_map', 'quick', 300, ack=a),
        _ob('self_validation_%s' % a, 'h_self_validation', 'quick', 2400, ack=a),
    ]

LEVEL = 'other'
EXPLANATION = __doc__
BOUNDS = ('trees of 1..2 groups x 1..2 sets with segment / element / group errors and an unclosed set (64 shapes) in inputs of 1..3 interchanges; echoed offending value from 9 hostile strings '
          'and set control number from 5, one or two groups; self-validation on 16 one-group shapes; 997 (4010) and 999 (5010).')
OUTSIDE = ('TA1 segments; echoed values longer than the 997/999 element maxima (the property itself conditions '
           'acceptance on "when the echoed values fit").')
ASSUMPTIONS = [
    'trees are built through the real err_handler API (see C05); clock and RNG frozen',
    'segment/element counting of the acknowledgement text uses the fixed output delimiters ~ * :',
]
FUNCTIONS = ['pyx12/error_997.py:error_997_visitor.*', 'pyx12/error_999.py:error_999_visitor.*', 'pyx12/x12file.py:X12Writer.*',
             'pyx12/x12file.py:X12Reader.*', 'pyx12/map_index.py:map_index.get_filename', 'pyx12/x12n_document.py:x12n_document']
