"""
C11  The writer always emits balanced envelopes with correct counts.   (inductive step over the writer's explicit state machine)

Real code executed symbolically (CrossHair+z3): X12Writer.Write, _popToLoop, _close_loop, _close_se/_close_ge/_close_iea,
_get_trailer_segment, _write_segment, _write_isa_segment, Close, and X12Base._parse_segment underneath.
A writer is constructed directly in an ARBITRARY state satisfying the representation invariant
    Inv: loops is a prefix of [ISA, GS, ST] (ids symbolic); gs_count / st_count / seg_count are the numbers of groups / sets / segments
         written so far inside the open interchange / group / set
and ONE Write (or Close) is executed.  The text that reaches the stream must be exactly: the generated trailers for every envelope
that is popped (innermost first, each with ITS header's control number and the true count), then the segment itself unless it is a
trailer (whose supplied id and count are ignored).  The post-state must satisfy Inv again.  By induction this covers write sequences
of any length; the composition obligations additionally read real writer output back with the real X12Reader.
"""
import io
import re
from harness.common import P
from pyx12.x12file import X12Writer, X12Reader, X12Base
from pyx12.segment import Segment
from harness.c04 import mk_reader, seg_of, isa_seg, ISA_FIELDS, TOKS, NTOK

DEPTH = P('depth', 3)
KIND = P('trailer', 'SE')
ID = re.compile('[0-9A-Z]')
EOL = '\n'


class Sink(object):
    """In-memory text stream written in Python (io.StringIO is C code: CrossHair would concretise every symbolic character)."""
    def __init__(self):
        self.parts = []

    def write(self, txt):
        self.parts.append(txt)

    def getvalue(self):
        return ''.join(self.parts)


def mk_writer(depth, isa_id, gs_id, st_id, n_groups, n_sets, seg_count, lx=False, lx_count=0):
    w = mk_reader(depth, isa_id, gs_id, st_id, [], [], seg_count, lx=lx, lx_count=lx_count, cls=X12Writer)
    # the writer only uses the counters (the seen-id lists are the reader's business)
    w.gs_count = n_groups if depth >= 1 else 0
    w.st_count = n_sets if depth >= 2 else 0
    w.fd_out = Sink()
    w.eol = EOL
    return w


def trailer_text(kind, count, ident):
    return '%s*%d*%s~%s' % (kind, count, ident, EOL)


def expected_pops(depth, upto, isa_id, gs_id, st_id, n_groups, n_sets, seg_count):
    """Trailers for the envelopes depth .. upto (1=ISA, 2=GS, 3=ST), innermost first, with the true counts."""
    out = ''
    for level in range(depth, upto - 1, -1):
        if level == 3:
            out += trailer_text('SE', seg_count + 1, st_id)
        elif level == 2:
            out += trailer_text('GE', n_sets, gs_id)
        elif level == 1:
            out += trailer_text('IEA', n_groups, isa_id)
    return out


LEVEL_OF = {'SE': 3, 'GE': 2, 'IEA': 1}


CTOKS = ('0', '2', '', 'X', '1')


def _val_ok(v: str) -> bool:
    return len(v) == 1 and v != '~' and v != '*' and v != ':' and v != '\n'


def h_trailer(ci: int, n_groups: int, n_sets: int, seg_count: int, nele: int) -> bool:
    '''
    pre: 0 <= ci < 5 and 0 <= nele <= 2
    pre: 0 <= n_groups <= 3 and 0 <= n_sets <= 3 and 1 <= seg_count <= 3
    pre: DEPTH >= 3 or seg_count == 1
    pre: DEPTH >= 2 or n_sets == 0
    pre: DEPTH < 2 or n_groups >= 1
    pre: DEPTH < 3 or n_sets >= 1
    post: _
    '''
    # trailer KIND supplied with a foreign id ('Z') and an ARBITRARY count token while its own header is open at or above the stack top
    isa, gs, st = 'I', 'G', 'S'
    w = mk_writer(DEPTH, isa, gs, st, n_groups, n_sets, seg_count)
    w.Write(seg_of(KIND, *[CTOKS[ci], 'Z'][:nele]))
    exp = expected_pops(DEPTH, LEVEL_OF[KIND], isa, gs, st, n_groups, n_sets, seg_count)
    lvl = LEVEL_OF[KIND]
    ok_state = (len(w.loops) == lvl - 1 and w.loops == [('ISA', isa), ('GS', gs), ('ST', st)][:lvl - 1] and
                (lvl > 3 or DEPTH < 3 or w.seg_count == 0) and (lvl > 2 or w.st_count == 0) and (lvl > 1 or w.gs_count == 0))
    return w.fd_out.getvalue() == exp and ok_state


IDS = ('1', 'A', '000000001', '0001', 'Z', '9')


def h_trailer_ids(a: int, b: int, c: int, z: int) -> bool:
    '''
    pre: 0 <= a < 6 and 0 <= b < 6 and 0 <= c < 6 and 0 <= z < 6
    post: _
    '''
    # same, with the control numbers chosen symbolically from a table (str.format / % in the code under test concretise symbolic
    # strings, so arbitrary symbolic ids never confirm): the generated trailers carry the headers' ids, never the supplied one
    isa, gs, st, ctl = IDS[a], IDS[b], IDS[c], IDS[z]
    w = mk_writer(3, isa, gs, st, 2, 2, 2)
    w.Write(seg_of(KIND, '9', ctl))
    return w.fd_out.getvalue() == expected_pops(3, LEVEL_OF[KIND], isa, gs, st, 2, 2, 2)


def h_close(n_groups: int, n_sets: int, seg_count: int) -> bool:
    '''
    pre: 0 <= n_groups <= 3 and 0 <= n_sets <= 3 and 1 <= seg_count <= 3
    pre: DEPTH >= 3 or seg_count == 1
    pre: DEPTH >= 2 or n_sets == 0
    pre: DEPTH >= 1 or n_groups == 0
    pre: DEPTH < 2 or n_groups >= 1
    pre: DEPTH < 3 or n_sets >= 1
    post: _
    '''
    isa, gs, st = 'I', 'G', 'S'
    w = mk_writer(DEPTH, isa, gs, st, n_groups, n_sets, seg_count)
    w.Close()
    return w.fd_out.getvalue() == expected_pops(DEPTH, 1, isa, gs, st, n_groups, n_sets, seg_count) and w.loops == []


BODY = ('REF', 'NM1', 'BHT', 'N1', 'HL', 'DTP', 'SV1', 'CLM', 'LX')


VALS = ('A', '0', ' ', 'z9', '-1.5')


def h_body(j: int, i1: int, i2: int, i3: int, two: bool, seg_count: int) -> bool:
    '''
    pre: 0 <= j < 9 and 0 <= i1 < 5 and 0 <= i2 < 5 and 0 <= i3 < 5
    pre: 1 <= seg_count <= 3
    pre: two or i3 == 0
    post: _
    '''
    # a non-trailer body segment goes out unchanged (same elements, same components, same order), nothing else is written
    v1, v2, v3 = VALS[i1], VALS[i2], VALS[i3]
    w = mk_writer(3, 'I', 'G', 'S', 1, 1, seg_count)
    seg = seg_of(BODY[j], v1, (v2 + ':' + v3) if two else v2)
    exp = BODY[j] + '*' + v1 + '*' + ((v2 + ':' + v3) if two else v2) + '~' + EOL
    w.Write(seg)
    return (w.fd_out.getvalue() == exp and w.loops == [('ISA', 'I'), ('GS', 'G'), ('ST', 'S')] and
            w.seg_count == seg_count + 1 and w.st_count == 1)


def h_lx(i1: int, lx_count: int, seg_count: int) -> bool:
    '''
    pre: 0 <= i1 < NTOK and 0 <= lx_count <= 3 and 1 <= seg_count <= 2
    post: _
    '''
    # 837 mode: the service-line number written is the writer's own count, whatever was supplied
    w = mk_writer(3, 'I', 'G', 'S', 1, 1, seg_count, lx=True, lx_count=lx_count)
    w.Write(seg_of('LX', TOKS[i1]))
    return w.fd_out.getvalue() == 'LX*%d~%s' % (lx_count + 1, EOL) and w.lx_count == lx_count + 1


def h_header(z: int, n_groups: int, n_sets: int) -> bool:
    '''
    pre: 0 <= z < 6
    pre: 0 <= n_groups <= 2 and 0 <= n_sets <= 2
    post: _
    '''
    # GS inside ISA (DEPTH 1) / ST inside GS (DEPTH 2): written unchanged, pushed, counted
    isa, gs, new = 'I', 'G', IDS[z]
    w = mk_writer(DEPTH, isa, gs, '', max(n_groups, 1) if DEPTH >= 2 else n_groups, n_sets, 0)
    if DEPTH == 1:
        seg = seg_of('GS', 'HC', 'S', 'R', '20040608', '1333', new, 'X', '004010X098A1')
        w.Write(seg)
        ok = (w.loops == [('ISA', isa), ('GS', new)] and w.gs_count == n_groups + 1 and w.st_count == 0)
    else:
        seg = seg_of('ST', '837', new)
        w.Write(seg)
        ok = (w.loops == [('ISA', isa), ('GS', gs), ('ST', new)] and w.st_count == n_sets + 1 and w.seg_count == 1)
    return ok and w.fd_out.getvalue() == seg.format('~', '*', ':') + EOL


SEG_T = ('~', '!', '\n', '|')
ELE_T = ('*', '|', '^', '+')
SUB_T = (':', '>', '<', '\\')
REP_T = ('^', '!', '}', '+')


def h_isa_delims(a: int, b: int, c: int, d: int, v5010: bool, ctl: str) -> bool:
    '''
    pre: 0 <= a < 4 and 0 <= b < 4 and 0 <= c < 4 and 0 <= d < 4
    pre: len(ctl) == 9 and re.fullmatch('[0-9]{9}', ctl) is not None
    post: _
    '''
    # the ISA written carries the writer's own delimiters at the fixed offsets 3, 82 (00501), 104, 105
    st, et, ct, rt = SEG_T[a], ELE_T[b], SUB_T[c], REP_T[d]
    if len(set([st, et, ct, rt])) < 4:
        return True
    out = io.StringIO()
    w = X12Writer(out, st, et, ct, '', rt)
    seg = Segment('ISA', '~', '*', ':')
    for f in ISA_FIELDS:
        seg.append(ctl if f is None else f)
    if v5010:
        seg.set('ISA12', '00501')
    w.Write(seg)
    txt = out.getvalue()
    return (len(txt) == 106 and txt[3] == et and txt[104] == ct and txt[105] == st and (not v5010 or txt[82] == rt) and
            txt[90:99] == ctl and w.loops == [('ISA', ctl)])


def h_isa_sequence(v1: bool, v2: bool, d: int, u1: bool, u2: bool) -> bool:
    '''
    pre: 0 <= d < 4
    post: _
    '''
    # one writer, two interchanges whose versions (00401 / 00501) and incoming ISA11 ('U' or a foreign '!') are symbolic:
    # EVERY ISA written carries the writer's own delimiters (no writer state may leak from the first interchange into the second)
    st, et, ct, rt = '~', '*', SUB_T[d], REP_T[d]
    out = Sink()
    w = X12Writer(out, st, et, ct, '', rt)
    texts = []
    for (v5010, keep_u, ctl) in ((v1, u1, '000000001'), (v2, u2, '000000002')):
        seg = Segment('ISA', '~', '*', ':')
        for f in ISA_FIELDS:
            seg.append(ctl if f is None else f)
        seg.set('ISA11', 'U' if keep_u else '!')
        if v5010:
            seg.set('ISA12', '00501')
        mark = len(out.getvalue())
        w.Write(seg)
        texts.append((out.getvalue()[mark:], v5010, 'U' if keep_u else '!'))
        w.Write(seg_of('IEA', '0', ctl))
    ok = True
    for (txt, v5010, src11) in texts:
        ok = ok and len(txt) == 106 and txt[3] == et and txt[104] == ct and txt[105] == st and txt[82] == (rt if v5010 else src11)
    return ok


# ------------------------------------------------------------------ composition with the real reader
STEPS = ('REF', 'SE_bad', 'GE_bad', 'IEA_bad', 'ST', 'GS', 'none')


def _isa_text_seg(ctl):
    return isa_seg(ctl)


NSTEPS = P('nsteps', 2)


def h_compose(depth: int, k1: int, k2: int, k3: int, ci: int) -> bool:
    '''
    pre: 1 <= depth <= 3 and 0 <= k1 < 7 and 0 <= k2 < 7 and 0 <= k3 < 7 and 0 <= ci < NTOK
    pre: NSTEPS >= 3 or k3 == 6
    pre: NSTEPS < 3 or ci < 3
    post: _
    '''
    # a real writer from scratch: headers down to `depth`, two further writes chosen symbolically (trailers carry a wrong count /
    # foreign id), then Close().  The text must read back with the real X12Reader without any envelope error.
    out = io.StringIO()
    w = X12Writer(out, '~', '*', ':', '\n', '^')
    w.Write(isa_seg('000000001'))
    if depth >= 2:
        w.Write(seg_of('GS', 'HC', 'S', 'R', '20040608', '1333', '1', 'X', '004010X098A1'))
    if depth >= 3:
        w.Write(seg_of('ST', '837', '0001'))
        w.Write(seg_of('BHT', '0019', '00'))
    nst, ngs = 1, 1
    for k in (k1, k2, k3):
        step = STEPS[k]
        top = w.loops[-1][0] if w.loops else None
        if step == 'REF' and top == 'ST':
            w.Write(seg_of('REF', '87', 'X'))
        elif step == 'SE_bad' and top == 'ST':
            w.Write(seg_of('SE', TOKS[ci], 'ZZ'))
        elif step == 'GE_bad' and top in ('ST', 'GS'):
            w.Write(seg_of('GE', TOKS[ci], 'ZZ'))
        elif step == 'IEA_bad' and top is not None:
            w.Write(seg_of('IEA', TOKS[ci], 'ZZ'))
        elif step == 'ST' and top == 'GS':
            nst += 1
            w.Write(seg_of('ST', '837', '000%d' % (nst + 1)))
        elif step == 'GS' and top == 'ISA':
            ngs += 1
            w.Write(seg_of('GS', 'HC', 'S', 'R', '20040608', '1333', '%d' % (ngs + 1), 'X', '004010X098A1'))
    w.Close()
    text = out.getvalue()
    r = X12Reader(io.StringIO(text))
    errs = []
    for _seg in r:
        errs.extend(r.pop_errors())
    r.cleanup()
    errs.extend(r.pop_errors())
    return [e for e in errs if e[0] in ('isa', 'gs', 'st')] == [] and r.loops == []


def _ob(name, fn, tier, timeout, kind='ch', **params):
    return {'name': name, 'fn': fn, 'kind': kind, 'tier': tier, 'timeout': timeout, 'params': params}


OBLIGATIONS = []
for kind, depths in (('SE', (3,)), ('GE', (2, 3)), ('IEA', (1, 2, 3))):
    for d in depths:
        OBLIGATIONS.append(_ob('write_%s_depth%d' % (kind, d), 'h_trailer', 'quick', 900, trailer=kind, depth=d))
    OBLIGATIONS.append(_ob('write_%s_ids' % kind, 'h_trailer_ids', 'quick', 600, trailer=kind))
for d in (0, 1, 2, 3):
    OBLIGATIONS.append(_ob('close_depth%d' % d, 'h_close', 'quick', 600, depth=d))
OBLIGATIONS += [
    _ob('write_body', 'h_body', 'quick', 900),
    _ob('write_lx_837', 'h_lx', 'quick', 300),
    _ob('write_GS', 'h_header', 'quick', 600, depth=1),
    _ob('write_ST', 'h_header', 'quick', 600, depth=2),
    _ob('write_isa_delims', 'h_isa_delims', 'quick', 900),
    _ob('write_isa_sequence', 'h_isa_sequence', 'quick', 900),
    _ob('compose_with_reader', 'h_compose', 'quick', 1500),
    _ob('compose3_with_reader', 'h_compose', 'thorough', 7200, nsteps=3),
]

LEVEL = 'model_checking'
EXPLANATION = __doc__
BOUNDS = ('one Write/Close from any invariant state: header ids concrete, in one obligation family chosen symbolically from a 6-element table (str.format/% in the code under test concretise symbolic strings); groups / sets already written 0..3 (empty interchange and empty group included), segments 1..3; '
          'supplied trailer id any character, supplied count any of 11 token classes or missing; body segments of 9 ids with 3 values chosen from a 5-element table; '
          'ISA with 4x4x4x4 delimiter choices, both versions; composition: real writer, headers to depth 1..3, two (three thorough) symbolic further writes, Close, read back.')
OUTSIDE = ('write sequences that are not well nested (outside the property); counts above 3; values longer than one character (formatting is per value); '
           'stream failures; eol other than newline.')
ASSUMPTIONS = [
    'Inv (representation invariant) as in the docstring; writer state built with object.__new__(X12Writer) + X12Base.__init__ and an in-memory stream',
    'true counts: SE = segments since ST including ST and SE; GE = sets written in the group; IEA = groups written in the interchange',
]
FUNCTIONS = ['pyx12/x12file.py:X12Writer.Write', 'pyx12/x12file.py:X12Writer._popToLoop', 'pyx12/x12file.py:X12Writer._close_se',
             'pyx12/x12file.py:X12Writer._close_ge', 'pyx12/x12file.py:X12Writer._close_iea', 'pyx12/x12file.py:X12Writer._get_trailer_segment',
             'pyx12/x12file.py:X12Writer._write_isa_segment', 'pyx12/x12file.py:X12Writer.Close']
