"""
C15  Element/composite validation enforces exactly what the map declares.

Real code executed symbolically (CrossHair+z3): map_if.element_if.is_valid / _is_valid_code / _error, map_if.composite_if.is_valid,
validation.contains_control_character, validation.IsValidDataType (C13 links the recognisers to the value languages),
codes.ExternalCodes.isValid (the real class over the shipped codes.xml).
An element_if is built directly (object.__new__) with a SYMBOLIC definition - usage, data type, min/max length, inline code list,
external code set, pattern - on a stub map root that supplies the data-element table, the real external-code object and the
charset; the candidate value is a symbolic string (or a symbolic choice from a boundary table for dates/times).
Oracle: the set of error codes the property statement implies, computed from the definition in ~30 lines.
"""
import re
from harness.common import P
import pyx12.map_if
import pyx12.codes
import pyx12.error_handler
from pyx12.segment import Element, Composite
from harness.c13 import TM_SPEC, N_SPEC, R_SPEC, spec_d8, spec_d6, spec_dt12, CHARSET

USAGE = P('usage', 'R')
DTYPE = P('dtype', 'AN')
MAXV = P('maxv', 2)
CS = P('cs', 'E')
ICVN = P('icvn', '00401')
EXCL = P('excl', None)

CODES = ('A', 'B1', '1', 'ZZ')
_EXT = pyx12.codes.ExternalCodes(None, EXCL)


class _DE(object):
    def __init__(self, dtype, mn, mx):
        self.d = {'data_type': dtype, 'min_len': mn, 'max_len': mx, 'name': 'n'}

    def get_by_elem_num(self, num):
        return self.d


class _Param(object):
    def get(self, k):
        return CS if k == 'charset' else None


class _Root(object):
    def __init__(self, dtype, mn, mx):
        self.data_elements = _DE(dtype, mn, mx)
        self.ext_codes = _EXT
        self.param = _Param()
        self.icvn = ICVN


class _Seg(object):
    def is_composite(self):
        return False


def mk_element(usage, dtype, mn, mx, codes, external, regex=None, seq=1, parent=None):
    e = object.__new__(pyx12.map_if.element_if)
    pyx12.map_if.x12_node.__init__(e)
    e.children = []
    e.root = _Root(dtype, mn, mx)
    e.parent = parent if parent is not None else _Seg()
    e.base_name = 'element'
    e.valid_codes = list(codes)
    e.external_codes = external
    e.id = 'TST%02d' % seq
    e.refdes = e.id
    e.data_ele = '999'
    e.usage = usage
    e.name = 'Test Element'
    e.seq = seq
    e.path = '%02d' % seq
    e.max_use = '1'
    e.res = regex
    e.rec = re.compile(regex, re.S) if regex else None
    return e


CTRL = re.compile('[^\x01-\x07\x09-\x0d\x11-\x17\x1c-\x1f]*', re.S)
CS_SPEC = re.compile('[%s]*' % CHARSET[(CS, ICVN)])


def type_ok(dtype, v):
    if dtype in ('AN', 'ID'):
        return CS_SPEC.fullmatch(v) is not None
    if dtype[0] == 'N':
        return N_SPEC.fullmatch(v) is not None
    if dtype == 'R':
        return R_SPEC.fullmatch(v) is not None
    if dtype == 'TM':
        return TM_SPEC.fullmatch(v) is not None
    if dtype == 'D8':
        return spec_d8(v)
    if dtype == 'D6':
        return spec_d6(v)
    if dtype == 'DT':
        return spec_d8(v) or spec_d6(v) or spec_dt12(v)
    if dtype == 'B':
        return True
    return False


def expected_codes(usage, dtype, mn, mx, codes, ext_member, has_ext, v):
    """The set of error codes the property statement implies for value v (None/'' = absent)."""
    if v is None or v == '':
        return ['1'] if usage == 'R' else []
    if usage == 'N':
        return ['10']
    out = []
    if dtype == 'R' or dtype[0] == 'N':
        n = len(v.replace('-', '').replace('.', ''))
    else:
        n = len(v)
    if n < mn:
        out.append('4')
    if n > mx:
        out.append('5')
    if CTRL.fullmatch(v) is None:
        out.append('6')          # control character: documented to trump every later check
        return out
    if dtype in ('AN', 'ID') and v.endswith(' ') and len(v.rstrip()) >= mn:
        out.append('6')
    if (len(codes) > 0 or has_ext) and not (v in codes or (has_ext and ext_member)):
        out.append('7')
    if not type_ok(dtype, v):
        out.append('8' if dtype in ('RD8', 'DT', 'D8', 'D6') else ('9' if dtype == 'TM' else '6'))
    return out


DATEVALS = ('20240229', '20230229', '17991231', '2024013', '991231', '0000', '2359', '2400', '235959', '2359599', '23595999',
            '235960', '202402291200', '202402292400', '1', 'X', '20240229 ', '240229')


def _run(e, v):
    errh = pyx12.error_handler.errh_list()
    res = e.is_valid(Element(v) if v is not None else None, errh)
    return res, [x[0] for x in errh.err_ele], errh.err_ele


VALPHA = re.compile('[Aa1 .\\-\x07\u00e9]*')


MN = P('mn', 1)
MX = P('mx', 2)
WITH_CODES = P('codes', False)


def h_element(v: str, absent: bool) -> bool:
    '''
    pre: len(v) <= MAXV
    pre: VALPHA.fullmatch(v) is not None
    post: _
    '''
    # symbolic value (alphabet: A a 1 blank point minus BEL e-acute = one representative of every class the
    # checks distinguish), symbolic length bounds, inline code list absent or (A, B1); usage and data type are shard parameters
    codes = list(CODES[:2]) if WITH_CODES else []
    mn, mx = MN, MX
    e = mk_element(USAGE, DTYPE, mn, mx, codes, None)
    val = None if absent else v
    res, got, full = _run(e, val)
    exp = expected_codes(USAGE, DTYPE, mn, mx, codes, False, False, val)
    return sorted(got) == sorted(exp) and res == (len(exp) == 0)


def h_element_table(k: int, mn: int, mx: int) -> bool:
    '''
    pre: 0 <= k < 18
    pre: 0 <= mn <= mx and mx in (4, 6, 8, 12)
    post: _
    '''
    # dates / times: the value is a symbolic choice from a boundary table (leap day, pre-1800, 24:00, 7-digit time, ...)
    v = DATEVALS[k]
    e = mk_element(USAGE, DTYPE, mn, mx, [], None)
    res, got, full = _run(e, v)
    exp = expected_codes(USAGE, DTYPE, mn, mx, [], False, False, v)
    return sorted(got) == sorted(exp) and res == (len(exp) == 0)


EXT_KEYS = ('states', 'claim_status', 'claim_status_cat', 'country')
EXT_VALS = ('MI', 'ZZ', '1', 'A0', 'US', 'XX9')


def h_external(ki: int, vi: int, ncodes: int) -> bool:
    '''
    pre: 0 <= ki < 4 and 0 <= vi < 6 and 0 <= ncodes <= 1
    post: _
    '''
    # external code set (REAL ExternalCodes over the shipped codes.xml, exclusion list = shard parameter EXCL)
    key, v = EXT_KEYS[ki], EXT_VALS[vi]
    codes = list(CODES[:ncodes])
    e = mk_element('R', 'ID', 1, 3, codes, key)
    res, got, full = _run(e, v)
    excluded = EXCL is not None and key in EXCL.split(',')
    member = excluded or (v in _EXT.codes[key]['codes'])
    exp = expected_codes('R', 'ID', 1, 3, codes, member, True, v)
    return sorted(got) == sorted(exp) and res == (len(exp) == 0)


REGEXES = ('^[0-9]+$', '^A', 'B$')


def h_regex(v: str, ri: int) -> bool:
    '''
    pre: 1 <= len(v) <= 2 and 0 <= ri < 3
    pre: CS_SPEC.fullmatch(v) is not None and not v.endswith(' ')
    post: _
    '''
    # declared pattern: a conforming value that does not match draws exactly code 7
    e = mk_element('R', 'AN', 1, 2, [], None, regex=REGEXES[ri])
    res, got, full = _run(e, v)
    exp = [] if re.compile(REGEXES[ri], re.S).search(v) is not None else ['7']
    return got == exp and res == (exp == [])


def h_type_list(k: int, t: int) -> bool:
    '''
    pre: 0 <= k < 18 and 0 <= t < 4
    post: _
    '''
    # DTP03-style element (AN) whose format is chosen by a preceding qualifier: TM / D8 / RD8 / DT
    qual = ('TM', 'D8', 'RD8', 'DT')[t]
    v = DATEVALS[k] if qual != 'RD8' else DATEVALS[k] + '-' + DATEVALS[(k * 7) % 18]
    e = mk_element('R', 'AN', 1, 35, [], None)
    errh = pyx12.error_handler.errh_list()
    res = e.is_valid(Element(v), errh, [qual])
    got = [x[0] for x in errh.err_ele]
    if qual == 'RD8':
        a, b = v.split('-')[0], v.split('-')[1] if v.count('-') == 1 else ''
        ok = v.count('-') == 1 and spec_d8(a) and spec_d8(b)
    else:
        ok = type_ok(qual, v)
    base = expected_codes('R', 'AN', 1, 35, [], False, False, v)
    exp = base + ([] if ok else ['9' if qual == 'TM' else '8'])
    return sorted(got) == sorted(exp) and res == (exp == [])


# ------------------------------------------------------------------ composite
def mk_composite(usage, child_usages):
    c = object.__new__(pyx12.map_if.composite_if)
    pyx12.map_if.x12_node.__init__(c)
    c.children = []
    c.root = _Root('AN', 1, 2)
    c.parent = _Seg()
    c.path = ''
    c.base_name = 'composite'
    c.id = 'TST03'
    c.refdes = 'TST03'
    c.data_ele = 'C001'
    c.usage = usage
    c.seq = 3
    c.repeat = 1
    c.name = 'Test Composite'
    for i, u in enumerate(child_usages):
        c.children.append(mk_element(u, 'AN', 1, 2, [], None, seq=i + 1, parent=c))
    return c


CU = ('R', 'S', 'N')


def h_composite(ui: int, u1: int, u2: int, n: int, f1: bool, f2: bool, f3: bool, absent: bool) -> bool:
    '''
    pre: 0 <= ui < 3 and 0 <= u1 < 3 and 0 <= u2 < 3 and 1 <= n <= 3
    post: _
    '''
    # composite with two declared components; data composite of n components, each 'A' or empty (symbolic), or absent altogether
    usage = CU[ui]
    c = mk_composite(usage, [CU[u1], CU[u2]])
    vals = [('A' if f else '') for f in (f1, f2, f3)][:n]
    data = None if absent else Composite(':'.join(vals), ':')
    errh = pyx12.error_handler.errh_list()
    res = c.is_valid(data, errh)
    got = [x[0] for x in errh.err_ele]
    empty = absent or all([v == '' for v in vals])
    if empty and usage in ('N', 'S'):
        exp = []
    elif usage == 'R' and empty:
        exp = ['2']
    elif usage == 'N':
        exp = ['5']
    else:
        exp = []
        if n > 2:
            exp.append('3')
        for i, u in enumerate((CU[u1], CU[u2])):
            v = vals[i] if i < n else ''
            if v == '':
                # first component of a non-required composite may be missing without error
                if u == 'R' and not (i == 0 and usage != 'R'):
                    exp.append('1')
            elif u == 'N':
                exp.append('10')
    return sorted(got) == sorted(exp) and res == (exp == [])


def _ob(name, fn, tier, timeout, kind='ch', **params):
    return {'name': name, 'fn': fn, 'kind': kind, 'tier': tier, 'timeout': timeout, 'params': params}


OBLIGATIONS = []
LENS = ((1, 1), (2, 3), (0, 2))   # too long / too short / neither for values of <= 2 characters
for usage in ('R', 'S', 'N'):
    for dtype in ('AN', 'ID', 'N0', 'N2', 'R', 'DT', 'D8', 'TM', 'B'):
        for (mn, mx) in LENS:
            for wc in (False, True):
                quick = ((usage == 'R' and dtype in ('AN', 'N0', 'R', 'TM')) or (usage != 'R' and dtype == 'AN' and (mn, mx) == (1, 1))) \
                    and (wc is False or (dtype == 'AN' and (mn, mx) == (1, 1)))
                OBLIGATIONS.append(_ob('element_%s_%s_%d_%d_%s' % (usage, dtype, mn, mx, 'codes' if wc else 'nocodes'), 'h_element',
                                       'quick' if quick else 'thorough', 900, usage=usage, dtype=dtype, maxv=2, mn=mn, mx=mx, codes=wc))
for dtype in ('AN', 'N0', 'R'):
    OBLIGATIONS.append(_ob('element_R_%s_le3' % dtype, 'h_element', 'thorough', 2400, usage='R', dtype=dtype, maxv=3, mn=2, mx=2))
OBLIGATIONS.append(_ob('element_R_AN_basic', 'h_element', 'quick', 900, usage='R', dtype='AN', maxv=2, cs='B', mn=1, mx=2))
OBLIGATIONS.append(_ob('element_R_ID_5010', 'h_element', 'thorough', 900, usage='R', dtype='ID', maxv=2, icvn='00501', mn=1, mx=2))
for dtype in ('DT', 'D8', 'D6', 'TM'):
    OBLIGATIONS.append(_ob('element_table_%s' % dtype, 'h_element_table', 'quick', 900, usage='R', dtype=dtype))
for excl in (None, 'states', 'claim_status_cat', 'states,claim_status_cat'):
    OBLIGATIONS.append(_ob('external_excl_%s' % (excl or 'none').replace(',', '+'), 'h_external', 'quick', 600, excl=excl))
OBLIGATIONS += [
    _ob('regex', 'h_regex', 'quick', 900),
    _ob('type_list', 'h_type_list', 'quick', 900),
    _ob('composite', 'h_composite', 'quick', 1200),
]

LEVEL = 'other'
EXPLANATION = __doc__
BOUNDS = ('element: usage x data type shards (R,S,N x AN,ID,N0,N2,R,DT,D8,TM,B), every value of <= 2 (3 thorough) arbitrary characters or absent, value alphabet = one representative of every character class the checks distinguish, (min,max) in {(1,1),(2,3),(0,2)}, inline code list absent or 2 codes; dates/times: 18 boundary values x max length in {4,6,8,12}; external sets: 4 real code '
          'sets x 6 values x 4 exclusion settings through the real ExternalCodes; 3 declared patterns; DTP-style qualifier-selected formats; composites: 3 usages '
          'x 3x3 component usages x 1..3 data components each present/empty, or absent.')
OUTSIDE = ('values longer than 3 characters except through the boundary tables; the element/composite nodes of the shipped maps as such (the definition is symbolic '
           'instead - every shipped definition is an instance with larger lengths); repeat counts of composites.')
ASSUMPTIONS = [
    'stub map root: data-element table returns the symbolic (type, min, max); ext_codes is the REAL ExternalCodes object; charset / icvn are shard parameters',
    'oracle: control character "trumps" later checks (documented in the code and accepted by the property); not-used composite reported with code 5; '
    'a required first component of a non-required composite may be absent (documented special case)',
    'data-type validity oracle = C13 value languages',
]
FUNCTIONS = ['pyx12/map_if.py:element_if.is_valid', 'pyx12/map_if.py:element_if._is_valid_code', 'pyx12/map_if.py:composite_if.is_valid',
             'pyx12/validation.py:contains_control_character', 'pyx12/validation.py:IsValidDataType', 'pyx12/codes.py:ExternalCodes.isValid']
