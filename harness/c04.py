"""
C04  Envelope, control-number and counter checks are exact.   (inductive step over the reader's explicit state machine)

Real code executed symbolically (CrossHair+z3): X12Base._parse_segment, X12Reader._parse_segment, X12Reader.cleanup, X12Base._int.
A reader object is constructed directly in an ARBITRARY state satisfying the representation invariant
    Inv:  loops is a prefix of [ISA, GS, ST] (ids symbolic);  gs_count == len(gs_ids);  st_count == len(st_ids);
          seg_count >= 1 inside a set;  hl_stack is a sub-list of 1..hl_count
(the reader's counters ARE the recount of everything read so far - that is what Inv says), one segment of kind K with symbolic
control number / declared count / HL numbers is fed to the real _parse_segment, and the errors appended must be EXACTLY those the
recount predicts, and the post-state must again satisfy Inv with the counters advanced as the recount prescribes.  One inductive
step from an arbitrary Inv-state covers interchanges with any number of groups, sets and segments.
Mis-nesting: a trailer that meets a stack whose top is not its header must report at the step; a header that meets a stack whose
top is not its parent must lead to >= 1 error by the time every open envelope has been closed consistently (bounded completion).
"""
import re
from harness.common import P
import pyx12.x12file
from pyx12.x12file import X12Reader, X12Base
from pyx12.segment import Segment

DEPTH = P('depth', 0)
NPREV = P('nprev', 1)
KIND = P('kind', 'REF')
HEADER = P('header', 'ISA')

DIG = re.compile('[0-9]{1,2}')
ALPHA = re.compile('[A-Z]{0,2}')
ID = re.compile('[0-9A-Z]')
TOKS = ('0', '1', '2', '3', '4', '5', '', 'X', '1A', '01', '10')
NTOK = len(TOKS)
HL1_TOKS = ('1', '2', '3', '4', '5', '', 'X', '01')
HL2_TOKS = ('', '1', '2', '3', '4', 'X', '01')
NELE = P('nele', 3)


def mk_reader(depth, isa_id, gs_id, st_id, gs_ids, st_ids, seg_count, hl_count=0, hl_stack=(), lx_count=0, lx=False,
              isa_ids=None, cls=X12Reader):
    """A reader in the Inv-state described by the arguments (no file involved)."""
    r = object.__new__(cls)
    X12Base.__init__(r)
    r.seg_term, r.ele_term, r.subele_term, r.repetition_term = '~', '*', ':', '^'
    r.icvn = '00401'
    ids = [('ISA', isa_id), ('GS', gs_id), ('ST', st_id)]
    r.loops = ids[:depth]
    r.isa_ids = list(isa_ids) if isa_ids is not None else ([isa_id] if depth >= 1 else [])
    r.gs_ids = list(gs_ids) if depth >= 1 else []
    r.gs_count = len(r.gs_ids)
    r.st_ids = list(st_ids) if depth >= 2 else []
    r.st_count = len(r.st_ids)
    r.seg_count = seg_count
    r.hl_count = hl_count
    r.hl_stack = list(hl_stack)
    r.lx_count = lx_count
    r.check_837_lx = lx
    r.cur_line = 5
    return r


def seg_of(seg_id, *vals):
    s = Segment(seg_id, '~', '*', ':')
    for v in vals:
        s.append(v)
    return s


ISA_FIELDS = ['00', '          ', '00', '          ', 'ZZ', 'SENDER         ', 'ZZ', 'RECEIVER       ', '040608', '1333', 'U',
              '00401', None, '0', 'P', ':']


def isa_seg(ctl):
    s = Segment('ISA', '~', '*', ':')
    for f in ISA_FIELDS:
        s.append(ctl if f is None else f)
    return s


ENV_SEG_CODES = ('HL1', 'HL2', 'LX')


def codes(r):
    """envelope errors only: isa/gs/st level and the HL / LX counters (segment-syntax errors 1, 8, SEG1 are C01/C07's)"""
    return sorted([(e[0], e[1]) for e in r.err_list if e[0] in ('isa', 'gs', 'st') or e[1] in ENV_SEG_CODES])


def declared_differs(tok: str, actual: int) -> bool:
    """recount: the declared count is wrong unless it is a plain decimal number equal to the actual count"""
    if DIG.fullmatch(tok) is None:
        return True
    return int(tok) != actual


def _prev(p1, p2):
    return [p1, p2][:NPREV]


def _tok_ok(tok: str) -> bool:
    return DIG.fullmatch(tok) is not None or ALPHA.fullmatch(tok) is not None


# ------------------------------------------------------------------ headers
def h_isa(new: str, p1: str, p2: str) -> bool:
    '''
    pre: ID.fullmatch(new) is not None and ID.fullmatch(p1) is not None and ID.fullmatch(p2) is not None
    post: _
    '''
    prev = _prev(p1, p2)
    r = mk_reader(0, '', '', '', [], [], 0, isa_ids=prev)
    r._parse_segment(isa_seg(new))
    exp = [('isa', '025')] if new in prev else []
    return (codes(r) == exp and r.loops == [('ISA', new)] and r.isa_ids == prev + [new] and r.gs_count == 0 and
            r.gs_ids == [])


def h_gs(isa: str, new: str, p1: str, p2: str) -> bool:
    '''
    pre: ID.fullmatch(new) is not None and ID.fullmatch(p1) is not None and ID.fullmatch(p2) is not None
    pre: ID.fullmatch(isa) is not None and p1 != p2
    post: _
    '''
    prev = _prev(p1, p2)
    r = mk_reader(1, isa, '', '', prev, [], 0)
    r._parse_segment(seg_of('GS', 'HC', 'S', 'R', '20040608', '1333', new, 'X', '004010X098A1'))
    exp = [('gs', '6')] if new in prev else []
    return (codes(r) == exp and r.loops == [('ISA', isa), ('GS', new)] and r.gs_ids == prev + [new] and
            r.gs_count == len(prev) + 1 and r.st_count == 0 and r.st_ids == [])


def h_st(isa: str, gs: str, new: str, p1: str, p2: str) -> bool:
    '''
    pre: ID.fullmatch(new) is not None and ID.fullmatch(p1) is not None and ID.fullmatch(p2) is not None
    pre: ID.fullmatch(isa) is not None and ID.fullmatch(gs) is not None and p1 != p2
    post: _
    '''
    prev = _prev(p1, p2)
    r = mk_reader(2, isa, gs, '', [gs], prev, 3, hl_count=2, hl_stack=[1, 2], lx_count=1)
    r._parse_segment(seg_of('ST', '837', new))
    exp = [('st', '23')] if new in prev else []
    return (codes(r) == exp and r.loops == [('ISA', isa), ('GS', gs), ('ST', new)] and r.st_ids == prev + [new] and
            r.st_count == len(prev) + 1 and r.seg_count == 1 and r.hl_count == 0 and r.hl_stack == [])


# ------------------------------------------------------------------ trailers (well nested)
def h_se(st: str, ctl: str, ci: int, seg_count: int, nele: int) -> bool:
    '''
    pre: ID.fullmatch(st) is not None and ID.fullmatch(ctl) is not None and 0 <= ci < NTOK
    pre: 1 <= seg_count <= 3 and 0 <= nele <= 2
    post: _
    '''
    cnt = TOKS[ci]
    r = mk_reader(3, 'I', 'G', st, ['G'], [st], seg_count)
    seg = seg_of('SE', *[cnt, ctl][:nele])
    r._parse_segment(seg)
    exp = []
    if nele < 2 or ctl != st:
        exp.append(('st', '3'))
    if nele < 1 or declared_differs(cnt, seg_count + 1):
        exp.append(('st', '4'))
    return (codes(r) == sorted(exp) and r.loops == [('ISA', 'I'), ('GS', 'G')] and r.st_count == 1 and
            r.seg_count == seg_count)


def h_ge(gs: str, ctl: str, ci: int, n_sets: int, nele: int) -> bool:
    '''
    pre: ID.fullmatch(gs) is not None and ID.fullmatch(ctl) is not None and 0 <= ci < NTOK
    pre: 0 <= n_sets <= 3 and 0 <= nele <= 2
    post: _
    '''
    cnt = TOKS[ci]
    r = mk_reader(2, 'I', gs, '', [gs], ['1', '2', '3'][:n_sets], 4)
    r._parse_segment(seg_of('GE', *[cnt, ctl][:nele]))
    exp = []
    if nele < 2 or ctl != gs:
        exp.append(('gs', '4'))
    if nele < 1 or declared_differs(cnt, n_sets):
        exp.append(('gs', '5'))
    return codes(r) == sorted(exp) and r.loops == [('ISA', 'I')] and r.gs_count == 1


def h_iea(isa: str, ctl: str, ci: int, n_groups: int, nele: int) -> bool:
    '''
    pre: ID.fullmatch(isa) is not None and ID.fullmatch(ctl) is not None and 0 <= ci < NTOK
    pre: 0 <= n_groups <= 3 and 0 <= nele <= 2
    post: _
    '''
    cnt = TOKS[ci]
    r = mk_reader(1, isa, '', '', ['1', '2', '3'][:n_groups], [], 4)
    r._parse_segment(seg_of('IEA', *[cnt, ctl][:nele]))
    exp = []
    if nele < 2 or ctl != isa:
        exp.append(('isa', '001'))
    if nele < 1 or declared_differs(cnt, n_groups):
        exp.append(('isa', '021'))
    return codes(r) == sorted(exp) and r.loops == [] and r.isa_ids == [isa]


# ------------------------------------------------------------------ body segments
STACKS = ([], [1], [1, 2], [2], [1, 2, 3], [1, 3], [3])


def h_hl(i1: int, i2: int, hl_count: int, k: int) -> bool:
    '''
    pre: 0 <= i1 < 8 and 0 <= i2 < 7
    pre: (NELE >= 1 or i1 == 0) and (NELE >= 2 or i2 == 0)
    pre: 0 <= hl_count <= 3 and 0 <= k < 7
    pre: all([x <= hl_count for x in STACKS[k]])
    post: _
    '''
    stack = list(STACKS[k])
    hl01, hl02 = HL1_TOKS[i1], HL2_TOKS[i2]
    nele, seg_count = NELE, 1
    r = mk_reader(3, 'I', 'G', 'S', ['G'], ['S'], seg_count, hl_count=hl_count, hl_stack=stack)
    r._parse_segment(seg_of('HL', *[hl01, hl02, '20'][:nele]))
    n = hl_count + 1
    exp = []
    if nele < 1 or declared_differs(hl01, n):
        exp.append(('seg', 'HL1'))
    has_parent = nele >= 2 and hl02 != ''
    if has_parent:
        parent_ok = DIG.fullmatch(hl02) is not None and int(hl02) in stack
        if not parent_ok:
            exp.append(('seg', 'HL2'))
        new_stack = list(stack)
        if DIG.fullmatch(hl02) is not None:
            while new_stack and new_stack[-1] != int(hl02):
                new_stack.pop()
        else:
            new_stack = []
    else:
        new_stack = list(stack)
    new_stack.append(n)
    return codes(r) == sorted(exp) and r.hl_count == n and r.hl_stack == new_stack and r.seg_count == seg_count + 1


def h_lx(i1: int, lx_count: int, on: bool, nele: int) -> bool:
    '''
    pre: 0 <= i1 < NTOK and 0 <= lx_count <= 3 and 0 <= nele <= 1
    post: _
    '''
    lx01 = TOKS[i1]
    r = mk_reader(3, 'I', 'G', 'S', ['G'], ['S'], 2, lx_count=lx_count, lx=on)
    r._parse_segment(seg_of('LX', *[lx01][:nele]))
    exp = []
    if on and (nele < 1 or lx01 != str(lx_count + 1)):
        exp.append(('seg', 'LX'))
    return codes(r) == exp and r.lx_count == (lx_count + 1 if on else lx_count) and r.seg_count == 3


def h_clm(lx_count: int, on: bool) -> bool:
    '''
    pre: 0 <= lx_count <= 3
    post: _
    '''
    r = mk_reader(3, 'I', 'G', 'S', ['G'], ['S'], 2, lx_count=lx_count, lx=on)
    r._parse_segment(seg_of('CLM', 'A', '100'))
    return codes(r) == [] and r.lx_count == (0 if on else lx_count) and r.seg_count == 3


BODY = ('REF', 'NM1', 'BHT', 'N1', 'TA1', 'DTP', 'SV1')


def h_other(j: int, v: str, seg_count: int, depth: int) -> bool:
    '''
    pre: 0 <= j < 7 and len(v) <= 1 and v != '*' and v != '~' and v != ':' and v != ''
    pre: 1 <= seg_count <= 3 and 1 <= depth <= 3
    post: _
    '''
    # a consistent envelope never draws an envelope error from a body segment; the segment is counted
    r = mk_reader(depth, 'I', 'G', 'S', ['G'], ['S'], seg_count, hl_count=1, hl_stack=[1], lx_count=1)
    before = list(r.loops)
    r._parse_segment(seg_of(BODY[j], v))
    return (codes(r) == [] and r.seg_count == seg_count + 1 and r.loops == before and r.hl_count == 1 and
            r.st_count == len(r.st_ids) and r.gs_count == len(r.gs_ids))


# ------------------------------------------------------------------ end of input
def h_cleanup(depth: int, isa: str, gs: str, st: str) -> bool:
    '''
    pre: 0 <= depth <= 3 and len(isa) <= 1 and len(gs) <= 1 and len(st) <= 1
    post: _
    '''
    r = mk_reader(depth, isa, gs, st, [gs], [st], 2)
    r.cleanup()
    exp = sorted([('isa', '023'), ('gs', '3'), ('st', '2')][:depth])
    return codes(r) == exp


# ------------------------------------------------------------------ mis-nesting
TRAILERS = ('IEA', 'GE', 'SE')
OWNER = {'IEA': 1, 'GE': 2, 'SE': 3}


def h_misnest_trailer(t: int, depth: int, ctl: str, ci: int, nele: int) -> bool:
    '''
    pre: 0 <= t < 3 and 0 <= depth <= 3 and ID.fullmatch(ctl) is not None and 0 <= ci < NTOK and 0 <= nele <= 2
    pre: depth != t + 1
    post: _
    '''
    # a trailer that does not meet its own header on top of the stack: at least one envelope error, and no exception
    r = mk_reader(depth, 'I', 'G', 'S', ['G'], ['S'], 2)
    r._parse_segment(seg_of(TRAILERS[t], *[TOKS[ci], ctl][:nele]))
    return len([e for e in r.err_list if e[0] in ('isa', 'gs', 'st')]) >= 1


HEADERS = ('ISA', 'GS', 'ST')


def _header_seg(h, ctl):
    if h == 'ISA':
        return isa_seg(ctl)
    if h == 'GS':
        return seg_of('GS', 'HC', 'S', 'R', '20040608', '1333', ctl, 'X', '004010X098A1')
    return seg_of('ST', '837', ctl)


def h_misnest_header(ctl: str, c1: int, c2: int, c3: int, c4: int) -> bool:
    '''
    pre: ID.fullmatch(ctl) is not None
    pre: 0 <= c1 <= 3 and 0 <= c2 <= 3 and 0 <= c3 <= 3 and 0 <= c4 <= 3
    pre: DEPTH + 1 >= 4 or c4 == 0
    pre: DEPTH + 1 >= 3 or c3 == 0
    pre: DEPTH + 1 >= 2 or c2 == 0
    pre: ctl != 'I' and ctl != 'G' and ctl != 'S'
    post: _
    '''
    # header HEADER arrives while the stack top is not its parent; afterwards every open envelope is closed, innermost first,
    # with its own control number and an ARBITRARY declared count (c1..c4).  Some envelope error must have been reported by then.
    r = mk_reader(DEPTH, 'I', 'G', 'S', ['G'], ['S'], 2)
    r._parse_segment(_header_seg(HEADER, ctl))
    counts = [TOKS[c1], TOKS[c2], TOKS[c3], TOKS[c4]]
    n = 0
    while r.loops and n < 4:
        (typ, ident) = r.loops[-1]
        tr = {'ISA': 'IEA', 'GS': 'GE', 'ST': 'SE'}[typ]
        r._parse_segment(seg_of(tr, counts[n], ident))
        n += 1
    r.cleanup()
    return len(r.err_list) >= 1


# ------------------------------------------------------------------ _int
def h_int(s: str) -> bool:
    '''
    pre: len(s) <= 2
    pre: DIG.fullmatch(s) is not None or ALPHA.fullmatch(s) is not None
    post: _
    '''
    r = mk_reader(0, '', '', '', [], [], 0)
    got = r._int(s)
    if DIG.fullmatch(s) is not None:
        return got == int(s)
    return got is None


def h_int_none(dummy: bool) -> bool:
    '''
    post: _
    '''
    # a missing element (get_value -> None) is "not a number", not an exception
    r = mk_reader(0, '', '', '', [], [], 0)
    return r._int(None) is None


def conc_init():
    """Base case (concrete): a freshly constructed reader over a real ISA header is in the initial Inv-state."""
    import io
    text = 'ISA*' + '*'.join(f if f is not None else '000000001' for f in ISA_FIELDS) + '~'
    r = X12Reader(io.StringIO(text))
    ok = (r.loops == [] and r.gs_count == 0 and r.st_count == 0 and r.seg_count == 0 and r.isa_ids == [] and
          r.gs_ids == [] and r.st_ids == [] and r.hl_stack == [] and r.err_list == [])
    return {'verdict': 'confirmed' if ok else 'refuted', 'call': 'conc_init_ok()', 'queries': 0, 'solver_time_s': 0.0,
            'sample': {'initial_state': 'loops=[] counters=0 id lists empty'},
            'functions': ['pyx12/x12file.py:X12Reader.__init__', 'pyx12/x12file.py:X12Base.__init__']}


def conc_init_ok():
    return conc_init()['verdict'] == 'confirmed'


def _ob(name, fn, tier, timeout, kind='ch', **params):
    return {'name': name, 'fn': fn, 'kind': kind, 'tier': tier, 'timeout': timeout, 'params': params}


OBLIGATIONS = [_ob('init_state', 'conc_init', 'quick', 60, kind='concrete')]
for n in (0, 1, 2):
    OBLIGATIONS += [_ob('step_ISA_prev%d' % n, 'h_isa', 'quick', 600, nprev=n),
                    _ob('step_GS_prev%d' % n, 'h_gs', 'quick', 600, nprev=n),
                    _ob('step_ST_prev%d' % n, 'h_st', 'quick', 600, nprev=n)]
OBLIGATIONS += [
    _ob('step_SE', 'h_se', 'quick', 900),
    _ob('step_GE', 'h_ge', 'quick', 900),
    _ob('step_IEA', 'h_iea', 'quick', 900),
] + [_ob('step_HL_nele%d' % n, 'h_hl', 'quick', 1200, nele=n) for n in (0, 1, 2, 3)] + [
    _ob('step_LX', 'h_lx', 'quick', 600),
    _ob('step_CLM', 'h_clm', 'quick', 300),
    _ob('step_other', 'h_other', 'quick', 600),
    _ob('cleanup', 'h_cleanup', 'quick', 300),
    _ob('misnest_trailer', 'h_misnest_trailer', 'quick', 900),
] + [_ob('misnest_header_%s_depth%d' % (h, d), 'h_misnest_header', 'quick', 900, header=h, depth=d)
     for h in ('ISA', 'GS', 'ST') for d in (0, 1, 2, 3) if d != {'ISA': 0, 'GS': 1, 'ST': 2}[h]] + [
    _ob('int_decimal', 'h_int', 'quick', 300),
    _ob('int_none', 'h_int_none', 'quick', 60),
]

LEVEL = 'model_checking'
EXPLANATION = __doc__
BOUNDS = ('control numbers: any one character of [0-9A-Z]; previously seen ids: 0..2 arbitrary; declared counts / HL / LX numbers: symbolic choice from the token classes 0 1 2 3 4 5 '' X 1A 01 10 (equal / different numeric / leading zero / empty / non-numeric / mixed) or '
          'element missing; actual counts 0..3 (message formatting realises them); HL stack: 7 sub-lists of 1..3; one step from any such state; '
          'mis-nested header followed by the consistent closing of <= 4 open envelopes with arbitrary numeric counts.')
OUTSIDE = ('counts >= 4 and control numbers longer than 2 characters (the step code compares, it does no arithmetic beyond +1); declared counts that '
           'Python int() accepts but X12 does not ("+1", " 1", "1_0", non-ASCII digits) are excluded by precondition; ISA segments without exactly '
           '16 elements (refused with X12Error by design).')
ASSUMPTIONS = [
    'Inv (representation invariant) as in the module docstring; its base case is checked concretely (init_state) and every step obligation re-establishes it',
    'state is built with object.__new__(X12Reader) + X12Base.__init__ - no stream; the text layer is C01',
    'recount oracle: a declared count is right iff it is [0-9]+ and equals the actual count; control numbers compare as strings',
]
FUNCTIONS = ['pyx12/x12file.py:X12Base._parse_segment', 'pyx12/x12file.py:X12Reader._parse_segment', 'pyx12/x12file.py:X12Reader.cleanup',
             'pyx12/x12file.py:X12Base._int']


# ------------------------------------------------------------------ sequences from the real initial state (reachability of Inv, cross-check)
SEQ_SEGS = (
    ('ISA', '1'), ('ISA', '2'), ('GS', '1'), ('GS', '2'), ('ST', '1'), ('ST', '2'), ('SE', '2', '1'), ('SE', '3', '1'), ('SE', '2', '2'),
    ('GE', '1', '1'), ('GE', '0', '1'), ('GE', '1', '2'), ('IEA', '1', '1'), ('IEA', '0', '1'), ('IEA', '1', '2'), ('REF',), ('HL', '1', ''), ('HL', '2', '1'),
    ('HL', '2', '5'),
)
NSEQ = len(SEQ_SEGS)
SEQLEN = P('seqlen', 3)
PREFIX = P('prefix', 0)


def _mk_seq_seg(t):
    if t[0] == 'ISA':
        return isa_seg(t[1])
    if t[0] == 'GS':
        return seg_of('GS', 'HC', 'S', 'R', '20040608', '1333', t[1], 'X', '004010X098A1')
    if t[0] == 'ST':
        return seg_of('ST', '837', t[1])
    if t[0] == 'REF':
        return seg_of('REF', '87', 'X')
    if t[0] == 'HL':
        return seg_of('HL', t[1], t[2], '20', '1')
    return seg_of(t[0], t[1], t[2])


def recount(tokens):
    """Independent recount of a whole segment sequence (from the property statement, not from the code): multiset of envelope error codes."""
    errs = []
    stack = []                      # (type, id)
    isa_ids, gs_ids, st_ids = [], [], []
    n_gs = n_st = n_seg = n_hl = 0
    hl_open = []
    parent_of = {'ISA': None, 'GS': 'ISA', 'ST': 'GS'}
    lvl_err = {'ISA': ('isa', '024'), 'GS': ('gs', '3'), 'ST': ('st', '2')}
    for t in tokens:
        k = t[0]
        top = stack[-1][0] if stack else None
        if k in ('ISA', 'GS', 'ST'):
            if top != parent_of[k]:
                errs.append(lvl_err[k])                      # header inside an unterminated / outside its parent envelope
            ids = {'ISA': isa_ids, 'GS': gs_ids, 'ST': st_ids}[k]
            if t[1] in ids:
                errs.append({'ISA': ('isa', '025'), 'GS': ('gs', '6'), 'ST': ('st', '23')}[k])
            ids.append(t[1])
            stack.append((k, t[1]))
            if k == 'ISA':
                n_gs, gs_ids[:] = 0, []
            elif k == 'GS':
                n_gs += 1
                n_st, st_ids[:] = 0, []
            else:
                n_st += 1
                n_seg, n_hl, hl_open = 1, 0, []
        elif k in ('SE', 'GE', 'IEA'):
            want = {'SE': 'ST', 'GE': 'GS', 'IEA': 'ISA'}[k]
            if not stack:
                errs.append({'SE': ('st', '3'), 'GE': ('gs', '3'), 'IEA': ('isa', '024')}[k])
                continue
            if k == 'SE':
                if stack[-1][0] != 'ST' or stack[-1][1] != t[2]:
                    errs.append(('st', '3'))
                if not (t[1].isdigit() and int(t[1]) == n_seg + 1):
                    errs.append(('st', '4'))
                stack.pop()
                continue
            if stack[-1][0] != want:
                errs.append(('gs', '3') if k == 'GE' else ('isa', '024'))
                stack.pop()
                if not stack:
                    errs.append(('gs', '3') if k == 'GE' else ('isa', '024'))
                    continue
            if stack[-1][1] != t[2]:
                errs.append(('gs', '4') if k == 'GE' else ('isa', '001'))
            actual = n_st if k == 'GE' else n_gs
            if not (t[1].isdigit() and int(t[1]) == actual):
                errs.append(('gs', '5') if k == 'GE' else ('isa', '021'))
            stack.pop()
        elif k == 'HL':
            n_hl += 1
            n_seg += 1
            if not (t[1].isdigit() and int(t[1]) == n_hl):
                errs.append(('seg', 'HL1'))
            if t[2] != '':
                par = int(t[2]) if t[2].isdigit() else None
                if par not in hl_open:
                    errs.append(('seg', 'HL2'))
                while hl_open and hl_open[-1] != par:
                    hl_open.pop()
            hl_open.append(n_hl)
        else:
            n_seg += 1
    for (typ, ident) in stack:
        errs.append({'ISA': ('isa', '023'), 'GS': ('gs', '3'), 'ST': ('st', '2')}[typ])
    return sorted(errs)


PREFIXES = ((), (('ISA', '1'),), (('ISA', '1'), ('GS', '1')), (('ISA', '1'), ('GS', '1'), ('ST', '1')))


def h_sequence(a: int, b: int, c: int) -> bool:
    '''
    pre: 0 <= a < NSEQ and 0 <= b < NSEQ and 0 <= c < NSEQ
    pre: SEQLEN >= 3 or c == 15
    post: _
    '''
    # a fresh reader, a well-nested prefix (shard), then two or three segments chosen symbolically, then end of input:
    # the envelope errors reported over the whole run equal the independent recount
    toks = list(PREFIXES[PREFIX]) + [SEQ_SEGS[a], SEQ_SEGS[b]] + ([SEQ_SEGS[c]] if SEQLEN >= 3 else [])
    r = mk_reader(0, '', '', '', [], [], 0)
    for t in toks:
        r._parse_segment(_mk_seq_seg(t))
    r.cleanup()
    return codes(r) == recount(toks)


for _p in range(4):
    OBLIGATIONS.append(_ob('sequence2_prefix%d' % _p, 'h_sequence', 'quick', 1800, seqlen=2, prefix=_p))
    OBLIGATIONS.append(_ob('sequence3_prefix%d' % _p, 'h_sequence', 'thorough', 7200, seqlen=3, prefix=_p))
