"""
C01  Tokenisation is lossless and independent of read chunking and source kind.

Real code executed symbolically (CrossHair+z3): RawX12File.__init__/__iter__, X12Reader.__init__/__iter__, Segment.__init__/format,
Composite.__init__/format.
 * the stream is a stub whose read(n) returns between 1 and n characters - the split points are SYMBOLIC (a read schedule) - and ''
   only at end of input; DEFAULT_BUFSIZE is patched to 1..3 so that every position of every terminator relative to a refill
   boundary is reachable with a short body (the constant is only ever an argument of read(): checked on the AST each run);
 * the 106-character ISA header is concrete except for its three delimiter characters, which are symbolic;
 * the body after the header is an arbitrary symbolic string.
Oracle: split on the terminator, drop the unterminated tail, strip leading CR/LF, drop empties - three lines.
"""
import ast
import inspect
import re
from harness.common import P
import pyx12.rawx12file
import pyx12.x12file
from pyx12.rawx12file import RawX12File
from pyx12.x12file import X12Reader
from pyx12.segment import Segment, Composite
from crosshair.core import realize

BS = P('bs', 2)          # patched DEFAULT_BUFSIZE
NB = P('nb', 3)          # exact body length
NS = P('ns', 4)          # exact segment-text length for the Segment harnesses
pyx12.rawx12file.DEFAULT_BUFSIZE = BS

ISA_HEAD = 'ISA*00*          *00*          *ZZ*SENDER         *ZZ*RECEIVER       *040608*1333*U*00401*000000001*0*P*:~'


def isa_text(seg_t, ele_t, sub_t):
    fields = ISA_HEAD[:-1].split('*')
    fields[16] = sub_t
    return ele_t.join(fields) + seg_t


class Stream(object):
    """Text stream whose read(n) hands out 1..n characters per call (symbolic schedule `cuts`), '' only at end of input."""
    closed = False

    def __init__(self, text, cuts):
        self.text = text
        self.pos = 0
        self.cuts = list(cuts)
        self.k = 0

    def read(self, n=-1):
        rest = len(self.text) - self.pos
        if rest <= 0:
            return ''
        if n is None or n < 0 or n > rest:
            n = rest
        if self.k < len(self.cuts):
            c = self.cuts[self.k]
            self.k += 1
            if 1 <= c < n:
                n = c
        out = self.text[self.pos:self.pos + n]
        self.pos += n
        return out

    def close(self):
        self.closed = True


def ref_lines(body, seg_t):
    parts = body.split(seg_t)
    out = []
    for p in parts[:-1]:          # the last piece is not terminated
        p = p.lstrip('\r\n')
        if p != '':
            out.append(p)
    return out


DELIM = re.compile('[^A-Za-z0-9 \r\n]')


def _delims_ok(st: str, et: str, ct: str) -> bool:
    return (DELIM.fullmatch(st) is not None and DELIM.fullmatch(et) is not None and DELIM.fullmatch(ct) is not None and
            st != et and st != ct and et != ct)


ST_CHOICES = ('~', '|', '\n', '!')
HEAD_CUTS = (1, 3, 52, 104, 105)


def h_raw_split(k: int, body: str, c2: int, c3: int) -> bool:
    '''
    pre: 0 <= k < 4
    pre: len(body) == NB
    pre: 0 <= c2 < BS and 0 <= c3 < BS
    post: _
    '''
    # terminator chosen symbolically, body symbolic, the two reads after the header may be short (c = 0: full read)
    st = ST_CHOICES[k]
    text = isa_text(st, '*', ':') + body
    got = list(RawX12File(Stream(text, [0, c2, c3])))
    exp = [text[:105]] + ref_lines(body, st)
    return got == exp


NLS = ('\n', '\r', '\r\n', '', '\n\n')


AB = ('', 'A', 'AB')


def h_raw_linebreak(k: int, ia: int, n1: int, ib: int, n2: int, c2: int, c3: int) -> bool:
    '''
    pre: 0 <= k < 2 and 0 <= n1 < 4 and 0 <= n2 < 3
    pre: 0 <= ia < 3 and 0 <= ib < 2
    pre: 0 <= c2 < BS and 0 <= c3 < BS
    post: _
    '''
    # two segments each followed by its terminator and a line-break convention, all chosen symbolically, read through buffers of
    # BS characters with two possibly short reads: every alignment of terminator, CR and LF relative to a refill boundary
    st = ST_CHOICES[k]
    body = AB[ia] + st + NLS[n1] + AB[ib] + st + NLS[n2]
    text = isa_text(st, '*', ':') + NLS[n2] + body
    got = list(RawX12File(Stream(text, [0, c2, c3])))
    exp = [text[:105]] + ref_lines(NLS[n2] + body, st)
    return got == exp


def h_raw_header_short(a: int, b: int, body: str) -> bool:
    '''
    pre: 0 <= a < 5 and 0 <= b < 5
    pre: len(body) == 1
    post: _
    '''
    # the header itself arrives in pieces (first two reads short)
    text = isa_text('~', '*', ':') + body + '~'
    got = list(RawX12File(Stream(text, [HEAD_CUTS[a], HEAD_CUTS[b]])))
    return got == [text[:105]] + ref_lines(body + '~', '~')


WHICH = P('which', 'seg')


def h_raw_delims(d: str, k: int) -> bool:
    '''
    pre: DELIM.fullmatch(d) is not None
    pre: 0 <= k < 3
    pre: d != OTHERS[k][0] and d != OTHERS[k][1]
    post: _
    '''
    # one delimiter symbolic (any non-alphanumeric character), the two others chosen symbolically from three pairs:
    # the delimiters are taken from the header positions 105 (segment), 3 (element), 104 (component)
    a, b = OTHERS[k]
    if WHICH == 'ele':
        # the element separator occurs 16 times inside the header: as a symbolic character it costs z3 > 900 s; it is chosen from a table
        d = ELE_TABLE[ord(d) % 5]
    if WHICH == 'seg':
        st, et, ct = d, a, b
    elif WHICH == 'ele':
        st, et, ct = a, d, b
    else:
        st, et, ct = a, b, d
    text = isa_text(st, et, ct) + 'GS' + et + 'A' + st
    r = RawX12File(Stream(text, []))
    return (r.seg_term == st and r.ele_term == et and r.subele_term == ct and list(r) == [text[:105], 'GS' + et + 'A'])


OTHERS = (('~', '*'), ('|', '^'), ('!', ':'))
ELE_TABLE = ('+', '&', '\x1d', '%', '/')


def _ref_split(s, et, ct, is_isa):
    elems = s.split(et)
    return elems[0], [[e] if is_isa else e.split(ct) for e in elems[1:]]


def h_segment_split(s: str, isa: bool) -> bool:
    '''
    pre: len(s) == NS
    pre: '~' not in s
    post: _
    '''
    # elements / components are split only at the declared separators, values character for character; ISA is never split on ':'
    text = ('ISA*' + s) if isa else ('ZZ*' + s)
    seg = Segment(text, '~', '*', ':')
    sid, ref = _ref_split(text, '*', ':', isa)
    got = [[e.get_value() for e in comp.elements] for comp in seg.elements]
    return seg.get_seg_id() == sid and got == ref


def _trim(ref):
    """documented normalisation of format(): trailing empty components and trailing empty elements are dropped"""
    out = []
    for comp in ref:
        c = list(comp)
        while len(c) > 1 and c[-1] == '':
            c.pop()
        out.append(c)
    while out and out[-1] == ['']:
        out.pop()
    return out


ALPH = re.compile('[*:A ]*')


def h_segment_format(s: str) -> bool:
    '''
    pre: len(s) == NS
    pre: ALPH.fullmatch(s) is not None
    post: _
    '''
    # formatting and re-reading yields the same segment; the text differs from the input only by trailing-empty trimming.
    # Cut: the formatted text is concretised before it is re-read (CrossHair 0.0.110 mis-models re-splitting the result of a
    # %-format: Segment(x.format()).format() == x.format() was refuted with a non-replaying witness), so s ranges over the
    # alphabet {*, :, A, blank} - the structural characters - and the solver enumerates it completely.
    text = 'ZZ*' + s
    seg = Segment(text, '~', '*', ':')
    out = realize(seg.format())
    seg2 = Segment(out, '~', '*', ':')
    sid, ref = _ref_split(realize(text), '*', ':', False)
    tr = _trim(ref)
    exp = 'ZZ*' + '*'.join([':'.join(c) for c in tr]) + '~'
    got2 = [[e.get_value() for e in comp.elements] for comp in seg2.elements]
    return out == exp and got2 == (tr if tr != [] else [['']]) and seg2.format() == out


FIRST_OK = re.compile('[A*:I]*')


def _line_reader(lines):
    """The real X12Reader with only the text layer (`raw`) replaced by a list of lines (the text layer is raw_split's obligation)."""
    rd = object.__new__(X12Reader)
    pyx12.x12file.X12Base.__init__(rd)
    rd.seg_term, rd.ele_term, rd.subele_term, rd.repetition_term, rd.icvn = '~', '*', ':', '^', '00401'
    rd.raw = lines
    return rd


def h_reader_line(nsp: int, rest: str, et_trailing: bool) -> bool:
    '''
    pre: 0 <= nsp <= 2 and len(rest) <= NS
    pre: FIRST_OK.fullmatch(rest) is not None
    pre: nsp + len(rest) + (1 if et_trailing else 0) >= 1
    post: _
    '''
    # one line through the real X12Reader.__iter__: leading blanks are dropped with exactly one error '1', a trailing element
    # separator draws 'SEG1', the stripped text is what gets tokenised, and nothing raises
    stripped = rest + ('*' if et_trailing else '')
    line = ' ' * nsp + stripped
    rd = _line_reader([line])
    segs = list(rd)
    codes = [e[1] for e in rd.err_list if (e[1] == '1' and 'leading space' in e[2]) or e[1] == 'SEG1']
    exp_codes = (['1'] if nsp > 0 else []) + (['SEG1'] if stripped != '' and stripped.endswith('*') else [])
    if stripped == '':
        return len(segs) == 0 and codes == exp_codes
    sid, ref = _ref_split(stripped, '*', ':', stripped.split('*')[0] == 'ISA')
    if len(segs) != 1:
        return False
    got = [[e.get_value() for e in comp.elements] for comp in segs[0].elements]
    return segs[0].get_seg_id() == sid and got == ref and codes == exp_codes


BODIES = ('', 'GS*A~', 'GS*A~\nST*1~\r\nSE*2~', '~~GS*A~ IEA*1', 'GS*A')


def h_source_kind(k: int) -> bool:
    '''
    pre: 0 <= k < 5
    post: _
    '''
    # a source named by path and an open text stream give the same segment stream (open() is stubbed by a Stream factory
    # that enforces the mode grammar of Python >= 3.11); the body is a symbolic choice (content is the raw layer's obligation)
    body = BODIES[k]
    text = ISA_HEAD + body
    opened = []

    def open_stub(path, mode='r', *a, **k):
        if not set(mode) <= set('rwxabt+') or len(set(mode) & set('rwxa')) != 1:
            raise ValueError("invalid mode: '%s'" % mode)
        opened.append(path)
        return Stream(text, [])
    old = pyx12.x12file.__dict__.get('open')
    pyx12.x12file.open = open_stub
    try:
        by_path = [s.format() for s in X12Reader('some/file.x12')]
    finally:
        if old is None:
            del pyx12.x12file.open
        else:
            pyx12.x12file.open = old
    by_stream = [s.format() for s in X12Reader(Stream(text, []))]
    return by_path == by_stream and opened == ['some/file.x12']


def conc_bufsize_only_read_arg():
    """Side condition (AST, every run): DEFAULT_BUFSIZE and ISA_LEN are used only as arguments of read() (so patching the size is sound)."""
    src = inspect.getsource(pyx12.rawx12file)
    tree = ast.parse(src)
    bad = []
    parents = {}
    for node in ast.walk(tree):
        for ch in ast.iter_child_nodes(node):
            parents[ch] = node
    for node in ast.walk(tree):
        if isinstance(node, ast.Name) and node.id == 'DEFAULT_BUFSIZE' and isinstance(node.ctx, ast.Load):
            par = parents.get(node)
            ok = isinstance(par, ast.Call) and isinstance(par.func, ast.Attribute) and par.func.attr == 'read'
            if not ok:
                bad.append(node.lineno)
    return {'verdict': 'confirmed' if not bad else 'unknown', 'queries': 0, 'solver_time_s': 0.0,
            'sample': {'uses_not_in_read_call': bad}, 'detail': 'DEFAULT_BUFSIZE used outside read() at lines %s' % bad}


def _ob(name, fn, tier, timeout, kind='ch', **params):
    return {'name': name, 'fn': fn, 'kind': kind, 'tier': tier, 'timeout': timeout, 'params': params}


OBLIGATIONS = [_ob('bufsize_only_read_arg', 'conc_bufsize_only_read_arg', 'quick', 60, kind='concrete')]
for bs in (1, 2, 3):
    for nb in (0, 1, 2, 3):
        OBLIGATIONS.append(_ob('raw_split_bs%d_body%d' % (bs, nb), 'h_raw_split', 'quick' if bs <= 2 and nb <= 2 else 'thorough', 1200, bs=bs, nb=nb))
    OBLIGATIONS.append(_ob('raw_split_bs%d_body4' % bs, 'h_raw_split', 'thorough', 3000, bs=bs, nb=4))
OBLIGATIONS.append(_ob('raw_header_short', 'h_raw_header_short', 'quick', 900, bs=2))
for bs in (1, 2, 3):
    OBLIGATIONS.append(_ob('raw_linebreak_bs%d' % bs, 'h_raw_linebreak', 'quick', 1200, bs=bs))
for w in ('seg', 'ele', 'sub'):
    OBLIGATIONS.append(_ob('raw_delims_%s' % w, 'h_raw_delims', 'quick', 900, which=w, bs=8))
for ns in (0, 1, 2, 3, 4):
    OBLIGATIONS.append(_ob('segment_split_len%d' % ns, 'h_segment_split', 'quick' if ns <= 3 else 'thorough', 900, ns=ns))
    OBLIGATIONS.append(_ob('segment_format_len%d' % ns, 'h_segment_format', 'quick' if ns <= 3 else 'thorough', 900, ns=ns))
for ns in (1, 2, 3):
    OBLIGATIONS.append(_ob('reader_line_le%d' % ns, 'h_reader_line', 'quick' if ns <= 2 else 'thorough', 900, ns=ns))
OBLIGATIONS.append(_ob('source_kind', 'h_source_kind', 'quick', 600, bs=3))

LEVEL = 'other'
EXPLANATION = __doc__
BOUNDS = ('raw layer: body of exactly 0..3 (4 thorough) arbitrary characters after the header, buffer size 1..3, the first three reads short by a symbolic '
          'amount (header read included), segment terminator any non-alphanumeric character; each delimiter in turn symbolic (any non-alphanumeric character) with the other two from three pairs; '
          'segment layer: every segment text of 0..3 (4 thorough) characters after the id, with and without the ISA rule; reader layer: 0..2 leading blanks + one line of <= 2 (3) characters over the structural alphabet {A, I, *, :} + optional trailing separator.')
OUTSIDE = ('bodies longer than 4 characters and buffer sizes other than 1..3 (the code is parametric in the size: it only passes it to read(), checked on the AST); '
           'more than three short reads; byte/encoding errors of real files; the `open` contract is the stub described in ASSUMPTIONS.')
ASSUMPTIONS = [
    'Stream stub: read(n) returns 1..n characters unless at end of input, then ""; has .closed',
    'open stub (bound as pyx12.x12file.open): accepts the mode grammar of Python >= 3.11 (so "U" is a ValueError), returns a Stream',
    'DEFAULT_BUFSIZE patched to 1..3; side condition checked on the AST every run',
    'documented normalisations: CR/LF after a terminator dropped; leading blanks dropped with error 1; trailing empty elements/components trimmed by format()',
]
FUNCTIONS = ['pyx12/rawx12file.py:RawX12File.__init__', 'pyx12/rawx12file.py:RawX12File.__iter__', 'pyx12/x12file.py:X12Reader.__init__',
             'pyx12/x12file.py:X12Reader.__iter__', 'pyx12/segment.py:Segment.__init__', 'pyx12/segment.py:Segment.format',
             'pyx12/segment.py:Composite.__init__', 'pyx12/segment.py:Composite.format']
