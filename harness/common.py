"""
Shared by all harness modules: shard parameters, logging off, small helpers.

A harness module defines
  OBLIGATIONS = [ {name, fn, kind: 'ch'|'smt'|'concrete', tier: 'quick'|'thorough', timeout, params}, ... ]
`params` (a JSON-able dict) reaches the module through the environment (VERIF_PARAMS) *before import*, so
concrete shard parameters (string length, positions, ...) are module constants while CrossHair runs.
"""
import json
import logging
import os

logging.disable(logging.CRITICAL)


def params():
    return json.loads(os.environ.get('VERIF_PARAMS', '{}'))


def P(name, default):
    return params().get(name, default)


_FINDINGS = None


def KNOWN(fid):
    """True when KNOWN_FINDINGS.json lists `fid` with status 'known' (and the exclusion is not switched off for the witness run).
    A harness assumes away exactly the predicate of a listed finding; 'fixed' entries suppress nothing."""
    global _FINDINGS
    if os.environ.get('VERIF_NO_EXCLUDE'):
        return False
    if _FINDINGS is None:
        p = os.path.join(os.path.dirname(os.path.dirname(os.path.abspath(__file__))), 'KNOWN_FINDINGS.json')
        try:
            with open(p) as fd:
                _FINDINGS = json.load(fd).get('findings', [])
        except (OSError, ValueError):
            _FINDINGS = []
    return any(f.get('id') == fid and f.get('status') == 'known' for f in _FINDINGS)
