"""
Shared by all harness modules: shard parameters, logging off, small helpers.

A harness module defines
  OBLIGATIONS = [ {name, fn, kind: 'ch'|'smt'|'concrete', tier: 'quick'|'thorough', timeout, params}, ... ]
`params` (a JSON-able dict) reaches the module through the environment (VERIF_PARAMS) *before import*, so
concrete shard parameters (string length, positions, ...) are module constants while CrossHair runs.
"""
import json
import logging
import os

logging.disable(logging.CRITICAL)


def params():
    return json.loads(os.environ.get('VERIF_PARAMS', '{}'))


def P(name, default):
    return params().get(name, default)
