"""
C07  Validation is total: any input yields a verdict or a documented refusal.

Real code executed symbolically (CrossHair+z3): the whole x12n_document pipeline (reader, walker, map nodes, error handler, 997/999
visitors, HTML and XML sinks), X12Reader.__iter__/_parse_segment/cleanup on hostile lines, X12ContextReader.iter_segments.
Inputs: (a) two-line sequences chosen symbolically from a table of hostile segment lines, fed to the real reader through the line
stub; (b) every structural mutation of the catalogue (delete, duplicate, swap, truncate, retag, orphan trailer, non-numeric count,
over-long segment, element-less segment, blank segment, too many components, lower-case id) at a SYMBOLIC position of small real
documents, under the requested sinks.  Allowed outcomes: a boolean; EngineError "Map not found"; nothing else.
"""
import io
from harness.common import P, KNOWN
from harness import docs
from harness.mutate import KINDS, mutate
from harness.c01 import _line_reader
import pyx12.errors
import pyx12.x12context
import pyx12.params
import pyx12.error_handler

docs.freeze_clock()
DOC = P('doc', '997')
KIND = P('mut', 'delete')
SINKS = P('sinks', [True, True, True])
CHARSET = P('charset', 'E')
_SEGS = docs.split_segments(docs.VALID[DOC])
NSEG = len(_SEGS)

LINES = ('ISA*00*          *00*          *ZZ*S              *ZZ*R              *040608*1333*U*00401*000000001*0*P*:', 'ISA*1', 'GS*HC*S*R*20040608*1333*1*X*004010X098A1',
         'GS', 'ST*837*0001', 'ST', 'SE*2*0001', 'SE', 'SE*X', 'GE*1*1', 'GE*X*1', 'GE', 'IEA*1*000000001', 'IEA', 'HL*1**20*1', 'HL*A*B', 'HL', 'LX*X', 'LX',
         'CLM*1', 'REF*87*X', '*', 'A', ' ', ' REF*1', 'REF*', 'nm1*1', 'TOOLONGID*1', 'TA1*1')
NLINE = len(LINES)


def h_reader_lines(a: int, b: int, lx: bool) -> bool:
    '''
    pre: 0 <= a < NLINE and 0 <= b < NLINE
    post: _
    '''
    # any two hostile lines (+ a trailer) through the real reader: only the documented X12Error (ISA without 16 elements) may be raised
    c = 12
    rd = _line_reader([LINES[a], LINES[b], LINES[c]])
    rd.check_837_lx = lx
    try:
        n = 0
        for seg in rd:
            n += 1
        rd.cleanup()
    except pyx12.errors.X12Error:
        return LINES[a].startswith('ISA*1') or LINES[b].startswith('ISA*1') or LINES[c].startswith('ISA*1')
    return n <= 3 and isinstance(rd.pop_errors(), list)


def _allowed(exc, segs=None):
    if exc is None or (isinstance(exc, pyx12.errors.EngineError) and 'Map not found' in str(exc)):
        return True
    if isinstance(exc, pyx12.errors.X12Error) and segs is not None:
        # documented not-X12 refusal: an ISA segment that does not have exactly 16 elements
        return any([s.split('*')[0].strip() == 'ISA' and len(s.split('*')) != 17 for s in segs])
    return False


def h_doc_mutation(i: int) -> bool:
    '''
    pre: 0 <= i < NSEG
    post: _
    '''
    segs = mutate(_SEGS, KIND, i)
    text = docs.join_segments(segs)
    r = docs.validate(text, ack=SINKS[0], html=SINKS[1], xml=SINKS[2], charset=CHARSET)
    return _allowed(r.exc, segs) and (r.exc is not None or isinstance(r.verdict, bool))


def _st_without_gs(segs):
    """predicate of the listed finding: a transaction set (ST) arrives while no functional group has been opened in its interchange"""
    open_gs = False
    for s in segs:
        sid = s.split('*')[0].strip()
        if sid == 'ISA':
            open_gs = False
        elif sid == 'GS':
            open_gs = True
        elif sid == 'ST' and not open_gs:
            return True
    return False


def h_ctx_mutation(i: int, use_loop: bool) -> bool:
    '''
    pre: 0 <= i < NSEG
    post: _
    '''
    segs = mutate(_SEGS, KIND, i)
    text = docs.join_segments(segs)
    try:
        rd = pyx12.x12context.X12ContextReader(pyx12.params.params(), pyx12.error_handler.errh_null(), io.StringIO(text))
        for _n in rd.iter_segments('ST_LOOP' if use_loop else None):
            pass
    except pyx12.errors.X12Error:
        return True       # documented refusal of a malformed ISA
    except pyx12.errors.EngineError as e:
        return 'Map not found' in str(e)
    return True


def _ob(name, fn, tier, timeout, kind='ch', **params):
    return {'name': name, 'fn': fn, 'kind': kind, 'tier': tier, 'timeout': timeout, 'params': params}


OBLIGATIONS = [_ob('reader_hostile_lines', 'h_reader_lines', 'quick', 2400)]
for k in KINDS:
    OBLIGATIONS.append(_ob('doc_997_%s' % k, 'h_doc_mutation', 'quick', 1800, doc='997', mut=k))
    OBLIGATIONS.append(_ob('doc_999_%s' % k, 'h_doc_mutation', 'thorough', 1800, doc='999', mut=k))
    OBLIGATIONS.append(_ob('doc_834_%s' % k, 'h_doc_mutation', 'thorough', 3600, doc='834_lui_id', mut=k))
    OBLIGATIONS.append(_ob('ctx_997_%s' % k, 'h_ctx_mutation', 'quick' if k in ('delete', 'swap', 'retag', 'orphan_trailer', 'truncate', 'blank_elements') else 'thorough', 1800, doc='997', mut=k))
for sinks in ([True, False, False], [False, True, False], [False, False, True], [False, False, False]):
    for k in ('delete', 'truncate', 'overlong'):
        OBLIGATIONS.append(_ob('doc_997_%s_sinks%s' % (k, ''.join('1' if x else '0' for x in sinks)), 'h_doc_mutation', 'thorough', 1800, doc='997', mut=k, sinks=sinks))
OBLIGATIONS.append(_ob('doc_997_delete_basic_charset', 'h_doc_mutation', 'thorough', 1800, doc='997', mut='delete', charset='B'))

LEVEL = 'other'
EXPLANATION = __doc__
BOUNDS = ('reader: every ordered pair of %d hostile lines followed by IEA, 837 mode on/off; documents: the 12-segment 997 (quick) and 999 / 24-segment 834 (thorough), every position x %d mutation kinds, '
          'all three sinks on (quick) and each sink subset for three kinds (thorough), charset E (B for one kind); context reader: same mutations, no loop id and ST_LOOP.' % (NLINE, len(KINDS)))
OUTSIDE = ('arbitrary long garbage; combinations of two or more mutations; mutations of large documents; resource exhaustion; input that does not start with an ISA header '
           '(documented refusal, checked by C01).')
ASSUMPTIONS = [
    'documents are concrete; the symbolic inputs are the mutation position (and the line choices) - choice enumeration under the tracer',
    'clock and RNG frozen; sinks are in-memory text streams',
]
FUNCTIONS = ['pyx12/x12n_document.py:x12n_document', 'pyx12/x12file.py:X12Reader.*', 'pyx12/map_walker.py:walk_tree.*', 'pyx12/map_if.py:segment_if.is_valid',
             'pyx12/error_handler.py:err_handler.*', 'pyx12/error_html.py:error_html.*', 'pyx12/x12xml_simple.py:x12xml_simple.seg', 'pyx12/x12context.py:X12ContextReader.iter_segments']
