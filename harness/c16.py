"""
C16  Shipped maps, index and code tables are consistent and fully addressable.

Mostly a finite, concrete configuration - there is no input to make symbolic - so this is the weakest use of the technique and is
flagged as such.  Two parts:
 * Engine B (z3 as query engine over fact tables): the REAL loaders (map_index, map_if.load_map_file, DataElements, ExternalCodes) are
   run on every shipped file named by the index; one row per node is dumped (kind, path, data element defined?, external set defined?,
   usage, position / repeat / max_use well formed?, syntax notes well formed?, does getnodebypath(get_path()) return the node?, is the
   path unique?, are same-position siblings distinguishable?, does the explicit-directory load give the same row?).  Each rule is
   the z3 query  EXISTS row . NOT rule(row)  over the table (rows are uninterpreted-function facts): unsat = the rule holds for
   the finite table (exhaustive), a model names the offending node.
 * Engine A (CrossHair): map_index.get_filename on the real index with a SYMBOLIC perturbation of each key (a symbolic suffix
   appended to the version / functional id / purpose code): an entry is selected exactly by its own keys, and by nothing else.
"""
import os
import re
from harness.common import P, KNOWN
import pyx12
import pyx12.map_index
import pyx12.map_if
import pyx12.params
import pyx12.dataele
import pyx12.codes
from pyx12.errors import EngineError

_PARAM = pyx12.params.params()
_INDEX = pyx12.map_index.map_index()
MAPDIR = os.path.join(os.path.dirname(pyx12.__file__), 'map')
SYN = re.compile('[PRECL]([0-9]{2}){2,}')


def _files():
    out = []
    for e in _INDEX.maps:
        if e['map_file'] not in out:
            out.append(e['map_file'])
    return out + ['x12.control.00401.xml', 'x12.control.00501.xml']


def _quals(seg):
    el = seg.guess_unique_key_id_element() if len(seg.children) > 0 else None
    return list(el.valid_codes) if el is not None else []


def build_tables():
    """rows: one dict per node of every indexed map (facts computed by the real loader and the real node methods)."""
    rows, loads = [], []
    de = pyx12.dataele.DataElements(None)
    ec = pyx12.codes.ExternalCodes(None, None)
    for f in _files():
        try:
            m = pyx12.map_if.load_map_file(f, _PARAM)
            m2 = pyx12.map_if.load_map_file(f, _PARAM, MAPDIR)
            loads.append({'file': f, 'loads': 1, 'error': ''})
        except Exception as e:  # noqa - a map that does not load is a row with loads = 0
            loads.append({'file': f, 'loads': 0, 'error': '%s: %s' % (type(e).__name__, e)})
            continue
        seen_paths = {}
        nodes = list(m.loop_segment_iterator())
        nodes2 = {n.get_path(): n for n in m2.loop_segment_iterator() if not n.is_map_root()}
        for n in nodes:
            if n.is_map_root():
                continue
            path = n.get_path()
            seen_paths[path] = seen_paths.get(path, 0) + 1
        for n in nodes:
            if n.is_map_root():
                continue
            path = n.get_path()
            row = {'file': f, 'kind': 'loop' if n.is_loop() else 'seg', 'path': path, 'usage_ok': 1 if n.usage in ('R', 'S', 'N') else 0,
                   'pos_ok': 1 if isinstance(n.pos, int) and n.pos > 0 else 0, 'unique': 1 if seen_paths[path] == 1 else 0,
                   'de_ok': 1, 'ext_ok': 1, 'syn_ok': 1, 'rep_ok': 1, 'addr_ok': 1, 'addr2_ok': 1, 'sib_ok': 1, 'same_ok': 1, 'ele_usage_ok': 1}
            try:
                row['rep_ok'] = 1 if n.get_max_repeat() >= 1 else 0
            except Exception:  # noqa
                row['rep_ok'] = 0
            try:
                row['addr_ok'] = 1 if m.getnodebypath(path) is n else 0
            except Exception:  # noqa
                row['addr_ok'] = 0
            n2 = nodes2.get(path)
            row['same_ok'] = 1 if (n2 is not None and n2.id == n.id and n2.usage == n.usage and n2.pos == n.pos and
                                   len(n2.children or []) == len(n.children or [])) else 0
            if n.is_segment():
                for s in n.syntax:
                    if not (len(s) >= 3 and s[0] in 'PRECL' and all(isinstance(x, int) and 1 <= x <= len(n.children) for x in s[1:])):
                        row['syn_ok'] = 0
                for ch in n.children:
                    subs = ch.children if ch.is_composite() else [ch]
                    if ch.usage not in ('R', 'S', 'N'):
                        row['ele_usage_ok'] = 0
                    for el in subs:
                        if el.data_ele not in de.dataele:
                            row['de_ok'] = 0
                        if el.external_codes is not None and el.external_codes not in ec.codes:
                            row['ext_ok'] = 0
                        if el.usage not in ('R', 'S', 'N'):
                            row['ele_usage_ok'] = 0
                    try:
                        ref = ch.refdes if ch.is_composite() else ch.id
                        got = m.getnodebypath2(path + ref[len(n.id):]) if False else None
                    except Exception:  # noqa
                        got = None
                # same-position siblings with the same id must be told apart by a qualifier
                sibs = [x for x in n.parent.pos_map.get(n.pos, []) if x is not n and x.is_segment() and x.id == n.id]
                for x in sibs:
                    qa, qb = _quals(n), _quals(x)
                    if not qa or not qb or set(qa) & set(qb):
                        row['sib_ok'] = 0
            rows.append(row)
    return loads, rows


RULES = ('usage_ok', 'pos_ok', 'unique', 'de_ok', 'ext_ok', 'syn_ok', 'rep_ok', 'addr_ok', 'sib_ok', 'same_ok', 'ele_usage_ok')
RULE = P('rule', 'addr_ok')
KNOWN_ROWS = {
    # listed findings (data defects of the shipped maps): (rule, file, path)
}


def smt_rule():
    """EXISTS row . rule(row) == 0, as a z3 query over the fact table built by the real loader."""
    import z3
    import time
    loads, rows = build_tables()
    excluded = _known_rows(RULE)
    r = z3.Int('r')
    f = z3.Function('fact', z3.IntSort(), z3.IntSort())
    s = z3.Solver()
    s.set('timeout', 120000)
    live = 0
    for i, row in enumerate(rows):
        val = row[RULE]
        if (row['file'], row['path']) in excluded:
            val = 1          # assumed away: listed finding (re-checked by its witness)
        s.add(f(i) == val)
        live += 1
    s.add(r >= 0, r < len(rows), f(r) == 0)
    t0 = time.perf_counter()
    res = str(s.check())
    dt = time.perf_counter() - t0
    out = {'queries': 1, 'solver_time_s': dt, 'sample': {'rule': RULE, 'rows': len(rows), 'files': len(loads), 'z3': res},
           'functions': ['pyx12/map_if.py:load_map_file', 'pyx12/map_if.py:map_if.getnodebypath', 'pyx12/map_if.py:x12_node.get_path',
                         'pyx12/dataele.py:DataElements', 'pyx12/codes.py:ExternalCodes']}
    if res == 'unsat':
        out['verdict'] = 'confirmed'
    elif res == 'sat':
        k = s.model()[r].as_long()
        out['verdict'] = 'refuted'
        out['call'] = '_replay_row(%r, %r, %r)' % (RULE, rows[k]['file'], rows[k]['path'])
        out['detail'] = 'rule %s fails for %s %s' % (RULE, rows[k]['file'], rows[k]['path'])
    else:
        out['verdict'] = 'unknown'
    return out


def _known_rows(rule):
    if not KNOWN('c16-data-' + rule):
        return set()
    import json
    p = os.path.join(os.path.dirname(os.path.dirname(os.path.abspath(__file__))), 'KNOWN_FINDINGS.json')
    for fnd in json.load(open(p)).get('findings', []):
        if fnd.get('id') == 'c16-data-' + rule:
            return set((a, b) for a, b in fnd.get('rows', []))
    return set()


def _replay_row(rule, fname, path):
    loads, rows = build_tables()
    for row in rows:
        if row['file'] == fname and row['path'] == path:
            return row[rule] == 1
    return False


def smt_loads():
    import z3
    loads, rows = build_tables()
    known = set(_known_files())
    r = z3.Int('r')
    f = z3.Function('loads', z3.IntSort(), z3.IntSort())
    s = z3.Solver()
    for i, l in enumerate(loads):
        s.add(f(i) == (1 if l['file'] in known else l['loads']))
    s.add(r >= 0, r < len(loads), f(r) == 0)
    res = str(s.check())
    out = {'queries': 1, 'solver_time_s': 0.0, 'sample': {'files': [l['file'] for l in loads]}, 'verdict': 'confirmed' if res == 'unsat' else 'refuted'}
    if res == 'sat':
        k = s.model()[r].as_long()
        out['call'] = '_replay_load(%r)' % loads[k]['file']
        out['detail'] = '%s does not load: %s' % (loads[k]['file'], loads[k]['error'])
    return out


def _known_files():
    if not KNOWN('c16-map-does-not-load'):
        return []
    return ['841.4010.XXXC.xml']


def _replay_load(fname):
    try:
        pyx12.map_if.load_map_file(fname, _PARAM)
        return True
    except Exception:  # noqa
        return False


# ------------------------------------------------------------------ index selection (CrossHair)
ENTRIES = list(_INDEX.maps)
NE = len(ENTRIES)
WHICH = P('which', 'vriic')


def h_index_entry(k: int, s: str) -> bool:
    '''
    pre: 0 <= k < NE
    pre: len(s) <= 1
    post: _
    '''
    # entry k is selected by its own keys and only by them: any one-character suffix on the chosen key selects something else or nothing
    e = ENTRIES[k]
    icvn, vriic, fic, tspc = e['icvn'], e['vriic'], e['fic'], e['tspc']
    if WHICH == 'vriic':
        vriic = vriic + s
    elif WHICH == 'fic':
        fic = fic + s
    elif WHICH == 'icvn':
        icvn = icvn + s
    got = _INDEX.get_filename(icvn, vriic, fic, tspc)
    exact = [x['map_file'] for x in ENTRIES if x['icvn'] == icvn and x['vriic'] == vriic and x['fic'] == fic and (tspc is None or x['tspc'] == tspc)]
    exp = exact[0] if exact else None
    own = (s != '') or got == e['map_file'] or [x for x in ENTRIES[:k] if (x['icvn'], x['vriic'], x['fic']) == (e['icvn'], e['vriic'], e['fic']) and tspc is None]
    return got == exp and bool(own)


def h_index_unambiguous(a: int, b: int) -> bool:
    '''
    pre: 0 <= a < NE and 0 <= b < NE and a < b
    post: _
    '''
    x, y = ENTRIES[a], ENTRIES[b]
    return (x['icvn'], x['vriic'], x['fic'], x['tspc']) != (y['icvn'], y['vriic'], y['fic'], y['tspc'])


def _ob(name, fn, tier, timeout, kind='ch', **params):
    return {'name': name, 'fn': fn, 'kind': kind, 'tier': tier, 'timeout': timeout, 'params': params}


OBLIGATIONS = [_ob('every_indexed_map_loads', 'smt_loads', 'quick', 900, kind='smt')]
for rl in RULES:
    OBLIGATIONS.append(_ob('rule_' + rl, 'smt_rule', 'quick', 900, kind='smt', rule=rl))
for w in ('vriic', 'fic', 'icvn'):
    OBLIGATIONS.append(_ob('index_selects_own_entry_%s' % w, 'h_index_entry', 'quick', 1200, which=w))
OBLIGATIONS.append(_ob('index_keys_unambiguous', 'h_index_unambiguous', 'quick', 1200))

LEVEL = 'other'
EXPLANATION = __doc__
BOUNDS = ('every file named by the shipped index plus the two control maps, every loop and segment node in them (elements and components are folded into their segment row); '
          'index: every entry with any one-character suffix on one key.')
OUTSIDE = ('element / component addressing through getnodebypath2 (not tabulated); semantic correctness of the maps against the implementation guides; '
           'files in the map directory that the index does not name.')
ASSUMPTIONS = [
    'facts are computed by the real loader and node methods; z3 only searches the finite table (degenerate use of the solver, flagged)',
    'listed data findings are assumed away row by row and re-checked by their witnesses',
]
FUNCTIONS = ['pyx12/map_index.py:map_index.get_filename', 'pyx12/map_if.py:load_map_file', 'pyx12/map_if.py:map_if.getnodebypath', 'pyx12/map_if.py:loop_if.getnodebypath']
