"""
C05  Verdict, reported errors and acknowledgement always agree.

Real code executed symbolically (CrossHair+z3): err_handler (add_*_loop, add_seg, add_ele, *_error, close_*_loop, get_error_count),
err_isa / err_gs / err_st / err_seg / err_ele (err_count, child_err_count, _get_ack_code, count_failed_st, close),
error_997_visitor and error_999_visitor (+ X12Writer for the 999).
The error tree is built through the handler's public API in the call order of x12n_document from a SYMBOLIC shape: one or two groups,
one or two sets per group, and per set symbolic flags (set-level error, segment error, element error on a body segment, element
error on the ST node itself, on the SE node, closed or not), per group a GS-level error / GS element error / declared GE01.
Oracle: recount of the shape - AK2 list, AK5/IK5 = A iff nothing was recorded in that set, AK9 = A iff nothing in the group,
AK902/903/904 = declared / received / accepted, addressed back to the sender, get_error_count() > 0 iff anything was recorded.
"""
from harness.common import P
from harness.errtree import (SetShape, GroupShape, build_tree, Sink, ack_segments)
import pyx12.error_997
import pyx12.error_999
from harness import docs

docs.freeze_clock()
ACK = P('ack', '997')
GE_TOKS = ('1', '2', '3', '0')


def run_ack(errh, src, kind):
    out = Sink()
    if kind == '997':
        v = pyx12.error_997.error_997_visitor(out, src.get_term())
    else:
        v = pyx12.error_999.error_999_visitor(out, src.get_term())
    errh.accept(v)
    return out.getvalue()


def _mk_groups(two_groups, two_sets, e_st, e_seg, e_ele, e_stele, e_seele, closed1, e2, gs_err, gs_ele, gei):
    s1 = SetShape('0001', st_err=('23' if e_st else None), seg_err=e_seg, ele_err=e_ele, st_ele_err=e_stele,
                  se_ele_err=(e_seele and closed1), closed=closed1)
    sets = [s1]
    if two_sets:
        sets.append(SetShape('0002', ele_err=e2))
    groups = [GroupShape('17', sets, ge01=GE_TOKS[gei], gs_err=('6' if gs_err else None), gs_ele_err=gs_ele)]
    if two_groups:
        groups.append(GroupShape('18', [SetShape('0007')], ge01='1', fic='HP', vriic='004010X091A1'))
    return groups


def check_ack(text, groups, kind):
    segs = ack_segments(text)
    ids = [s[0] for s in segs]
    ak5, ak9, ak2 = ('AK5', 'AK9', 'AK2') if kind == '997' else ('IK5', 'AK9', 'AK2')
    # addressed back to the sender
    isa = segs[0]
    if not (isa[0] == 'ISA' and isa[6] == 'RECEIVER       ' and isa[8] == 'SENDER         '):
        return False
    gs = segs[1]
    if not (gs[0] == 'GS' and gs[1] == 'FA' and gs[2] == 'RECEIVERGS' and gs[3] == 'SENDERGS'):
        return False
    # one AK1 per group, in order, with its own control number; one AK2 per set, in order
    exp_seq = []
    for g in groups:
        exp_seq.append(('AK1', g.fic, g.ctl))
        for s in g.sets:
            exp_seq.append((ak2, '837', s.ctl))
    got_seq = [(s[0], s[1], s[2]) for s in segs if s[0] in ('AK1', ak2)]
    if got_seq != exp_seq:
        return False
    # accept codes
    got5 = [s[1] for s in segs if s[0] == ak5]
    exp5 = [('R' if s.any_error() else 'A') for g in groups for s in g.sets]
    if got5 != exp5:
        return False
    got9 = [(s[1], s[2], s[3], s[4]) for s in segs if s[0] == ak9]
    exp9 = []
    for g in groups:
        declared = int(g.ge01) if g.ge01 is not None else len(g.sets)
        accepted = len([s for s in g.sets if not s.any_error()])
        exp9.append(('R' if g.any_error() else 'A', '%d' % declared, '%d' % len(g.sets), '%d' % accepted))
    return got9 == exp9


FAMILY = P('family', 'set')                # which flags vary: the first set's ('set') or the group's and the second set's ('group')
SHAPE = P('shape', [False, False, 0])     # two groups?, two sets?, index of the declared GE01


def h_tree_ack(e_st: bool, e_seg: bool, e_ele: bool, e_stele: bool, e_seele: bool,
               closed1: bool, e2: bool, gs_err: bool, gs_ele: bool, ge_ele: bool) -> bool:
    '''
    pre: SHAPE[1] or not e2
    pre: FAMILY == 'set' or not (e_st or e_seg or e_stele or e_seele or not closed1)
    pre: FAMILY == 'group' or not (gs_err or gs_ele or ge_ele or e2)
    post: _
    '''
    two_groups, two_sets, gei = SHAPE
    groups = _mk_groups(two_groups, two_sets, e_st, e_seg, e_ele, e_stele, e_seele, closed1, e2, gs_err, gs_ele, gei)
    groups[0].ge_ele_err = ge_ele
    errh, src = build_tree(groups, icvn=('00401' if ACK == '997' else '00501'),
                           st_vriic=(None if ACK == '997' else '005010X222A1'))
    text = run_ack(errh, src, ACK)
    anything = any([g.any_error() for g in groups])
    return check_ack(text, groups, ACK) and (errh.get_error_count() > 0) == anything


def h_itemised(e_seg: bool, e_ele: bool, comp: bool, bi: int, pos: int, second: bool) -> bool:
    '''
    pre: 0 <= bi < 4 and 1 <= pos <= 3
    post: _
    '''
    # every reported segment / element error with a standard code is itemised under its set at the right segment position,
    # element position (and component) and offending value
    import pyx12.error_handler
    from harness.errtree import Src, MapNode, isa_segment, gs_segment, st_segment, seg_of
    bad = ('ZZ', 'X', '20249999', 'A B')[bi]
    errh = pyx12.error_handler.err_handler()
    src = Src()
    src.isa_id, src.gs_id, src.st_id, src.cur_line, src.st_count = '000000001', '17', '0001', 3, 1
    icvn = '00401' if ACK == '997' else '00501'
    errh.add_isa_loop(isa_segment(icvn=icvn), src)
    errh.add_gs_loop(gs_segment(), src)
    errh.add_st_loop(st_segment(vriic=(None if ACK == '997' else '005010X222A1')), src)
    seg_count = 4 + pos
    errh.add_seg(MapNode('Claim', 130), seg_of('CLM', 'A', 'B', 'C'), seg_count, 9, None)
    if e_seg:
        errh.seg_error('3', 'Mandatory segment missing', None)
    if e_ele:
        if comp:
            errh.add_ele(MapNode('CLM05-%d' % pos, data_ele='1331', seq=pos, in_composite=True, comp_seq=5))
        else:
            errh.add_ele(MapNode('CLM%02d' % pos, data_ele='782', seq=pos))
        errh.ele_error('7', '(%s) is not a valid code' % bad, bad)
        if second:
            # a second error on the same element that carries NO offending value (syntax errors are reported like this)
            errh.ele_error('2', 'Syntax Error (C0506): If CLM05 is present, then CLM06 is required', None)
    src.cur_line = 12
    errh.close_st_loop(None, seg_of('SE', '9', '0001'), src)
    errh.close_gs_loop(None, seg_of('GE', '1', '17'), src)
    errh.close_isa_loop(None, seg_of('IEA', '1', '000000001'), src)
    segs = ack_segments(run_ack(errh, src, ACK))
    k3, k4 = ('AK3', 'AK4') if ACK == '997' else ('IK3', 'IK4')
    got3 = [s for s in segs if s[0] == k3]
    got4 = [s for s in segs if s[0] == k4]
    exp3 = []
    if e_seg:
        exp3.append([k3, 'CLM', '%d' % seg_count, '', '3'])
    if e_ele:
        exp3.append([k3, 'CLM', '%d' % seg_count, '', '8'])
    exp4 = []
    if e_ele:
        where = ('5:%d' % pos) if comp else ('%d' % pos)
        exp4.append([k4, where, '1331' if comp else '782', '7', bad])
        if second:
            exp4.append([k4, where, '1331' if comp else '782', '2'])
    return sorted(got3) == sorted(exp3) and got4 == exp4


_CTLS = ('0001', '0002', '0003')
_ISA278 = 'ISA*00*          *00*          *ZZ*SENDER         *ZZ*RECEIVER       *030828*1128*U*00401*000010121*0*T*:'


def h_pipeline_totals(c2: int, c3: int, dup_gs: bool, third: bool) -> bool:
    '''
    pre: 0 <= c2 <= 2 and 0 <= c3 <= 2
    post: _
    '''
    # the REAL reader + validator + 997 visitor on two groups of 2-3 small 278 sets whose control numbers are a symbolic choice
    # (repeats included: a repeated control number is itself an error, but every set received is still named and counted)
    g1 = ['0001', _CTLS[c2]] + ([_CTLS[c3]] if third else [])
    g2 = ['0001']
    gs_ctls = ['17', '17' if dup_gs else '18']
    segs = [_ISA278]
    for gctl, ctls in zip(gs_ctls, (g1, g2)):
        segs.append('GS*HI*SENDERGS*RECEIVERGS*20030828*1128*%s*X*004010X094A1' % gctl)
        for c in ctls:
            segs += ['ST*278*%s' % c, 'BHT*0078*11*121231*20050802*1202', 'SE*3*%s' % c]
        segs.append('GE*%d*%s' % (len(ctls), gctl))
    segs.append('IEA*2*000010121')
    r = docs.validate(docs.join_segments(segs), ack=True)
    if r.exc is not None or not r.ack:
        return False
    ack = ack_segments(r.ack)
    groups = []
    for a in ack:
        if a[0] == 'AK1':
            groups.append({'ctl': a[2], 'ak2': [], 'ak5': [], 'ak9': None})
        elif a[0] == 'AK2':
            groups[-1]['ak2'].append(a[2])
        elif a[0] == 'AK5':
            groups[-1]['ak5'].append(a[1])
        elif a[0] == 'AK9':
            groups[-1]['ak9'] = a
    if [g['ctl'] for g in groups] != gs_ctls:
        return False
    for g, ctls in zip(groups, (g1, g2)):
        ak9 = g['ak9']
        if g['ak2'] != ctls or len(g['ak5']) != len(ctls) or ak9 is None:
            return False
        if (ak9[2], ak9[3], ak9[4]) != ('%d' % len(ctls), '%d' % len(ctls), '%d' % g['ak5'].count('A')):
            return False
        if '5' in ak9[5:]:            # GE01 equals the true number of sets: "count mismatch" must not be reported
            return False
        if (ak9[1] == 'A') and g['ak5'].count('A') != len(ctls):
            return False
    anyr = any(x != 'A' for g in groups for x in g['ak5']) or any(g['ak9'][1] != 'A' for g in groups)
    return (not anyr) or (r.verdict is False)


def _ob(name, fn, tier, timeout, kind='ch', **params):
    return {'name': name, 'fn': fn, 'kind': kind, 'tier': tier, 'timeout': timeout, 'params': params}


OBLIGATIONS = [
] + [_ob('tree_ack_%s_%s_%s' % (a, n, fam), 'h_tree_ack', 'quick', 1800, ack=a, shape=sh, family=fam)
     for a in ('997', '999') for fam in ('set', 'group') for (n, sh) in (('1g1s', [False, False, 0]), ('1g2s', [False, True, 1]), ('2g2s_ge3', [True, True, 2]), ('2g1s_ge0', [True, False, 3]))] + [
    _ob('itemised_997', 'h_itemised', 'quick', 900, ack='997'),
    _ob('itemised_999', 'h_itemised', 'quick', 900, ack='999'),
    _ob('pipeline_totals_997', 'h_pipeline_totals', 'quick', 2400),     # real reader counters x error tree x visitor (repeated control numbers)
]

LEVEL = 'other'
EXPLANATION = __doc__
BOUNDS = ('1..2 groups, 1..2 sets in the first group, every combination of the error flags of the first set with the group flags clear, and of the group flags (+ element error in the second set) with the set flags clear: flags (set-level, segment, element on body, element on ST, element on SE, '
          'unclosed), GS-level error, GS element error, declared GE01 in {0,1,2,3}; 997 (4010) and 999 (5010); itemisation: segment position 5..7, element 1..3, simple or '
          'component, 4 offending values.')
OUTSIDE = ('more than two groups / three sets (the visitors iterate, they keep no cross-set state except the counters checked here); several interchanges in one file; '
           'the pipeline that produces the tree (C03/C07); TA1.')
ASSUMPTIONS = [
    'the tree is built through the real err_handler API in the call order of x12n_document, with stub reader and stub map nodes',
    'pipeline_totals_997 alone runs the real reader and x12n_document: two groups of 2-3 three-segment 278 sets, control numbers a symbolic choice among 0001-0003 (repeats included), second group control number equal or not',
    'clock and RNG are frozen (environment stub)',
    'an unclosed set / group counts as "an error was reported inside it" (the missing-trailer error is recorded there)',
]
FUNCTIONS = ['pyx12/x12file.py:X12Base._parse_segment', 'pyx12/x12n_document.py:x12n_document', 'pyx12/error_handler.py:err_handler.*', 'pyx12/error_handler.py:err_gs.close', 'pyx12/error_handler.py:err_gs._get_ack_code',
             'pyx12/error_handler.py:err_st.close', 'pyx12/error_handler.py:err_st.err_count', 'pyx12/error_997.py:error_997_visitor.*',
             'pyx12/error_999.py:error_999_visitor.*']
