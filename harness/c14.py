"""
C14  Syntax notes (P, R, E, C, L) are evaluated exactly as X12 defines them.

Real code executed symbolically (CrossHair+z3): pyx12.syntax.is_syntax_valid, pyx12.map_if.segment_if._split_syntax and the
syntax loop of segment_if.is_valid (through a segment node built by the REAL map loader from a small in-memory map whose
<syntax> notes are the shard parameter), with pyx12.error_handler.errh_list as sink.
Symbolic inputs: segment length 0..MAXL, one presence flag per element, one filler character; the note type is a symbolic choice
in the generic obligations; positions are shard parameters (idiom 10: they reach '%02d').
Oracle: the X12 definitions, five lines of integer counting.
"""
import re
import xml.etree.ElementTree as et
from harness.common import P
from pyx12.syntax import is_syntax_valid
from pyx12.segment import Segment
import pyx12.map_if
import pyx12.params
import pyx12.error_handler

POS = tuple(P('pos', [1, 2]))          # positions of the note, in the order written
TYPE = P('type', None)                 # None: symbolic choice among P R E C L
NOTES = P('notes', ['P0102'])          # for the routing obligations: the <syntax> texts of the synthetic segment
MAXL = P('maxl', max(POS) + 1)
NELE = P('nele', 6)
TYPES = ('P', 'R', 'E', 'C', 'L')
FILL = re.compile('[A-Z0-9]')


def spec_violated(typ: str, pres) -> bool:
    """X12 definition. pres[i] = is the i-th mentioned element present (non-empty and inside the segment)?"""
    n = len(pres)
    cnt = 0
    for b in pres:
        if b:
            cnt += 1
    if typ == 'P':
        return cnt != 0 and cnt != n
    if typ == 'R':
        return cnt == 0
    if typ == 'E':
        return cnt > 1
    rest = cnt - (1 if pres[0] else 0)
    if typ == 'C':
        return pres[0] and rest != n - 1
    if typ == 'L':
        return pres[0] and rest == 0
    raise ValueError(typ)


def _segment(length, flags, fill):
    seg = Segment('TST', '~', '*', ':')
    for i in range(1, length + 1):
        seg.append(fill if flags[i - 1] else '')
    return seg


def h_generic(t: int, length: int, f1: bool, f2: bool, f3: bool, f4: bool, f5: bool, other: bool, fill: str) -> bool:
    '''
    pre: 0 <= t < 5
    pre: 0 <= length <= MAXL
    pre: len(fill) == 1 and fill != '~' and fill != '*' and fill != ':'
    post: _
    '''
    # f_k: is the k-th MENTIONED position filled?  `other`: are the positions the note does not mention filled?
    fk = [f1, f2, f3, f4, f5]
    where = {}
    for k, p in enumerate(POS):
        where[p] = fk[k]
    typ = TYPES[t] if TYPE is None else TYPE
    seg = Segment('TST', '~', '*', ':')
    for i in range(1, length + 1):
        seg.append(fill if where.get(i, other) else '')
    (ok, msg) = is_syntax_valid(seg, [typ] + list(POS))
    pres = [(p <= length and where[p]) for p in POS]
    viol = spec_violated(typ, pres)
    return ok == (not viol) and (msg is None) == ok and (ok or msg.startswith('Syntax Error'))


SYN_RE = re.compile('[PRECL]([0-9]{2}){2,5}')


def h_split(s: str) -> bool:
    '''
    pre: len(s) == 1 + 2 * len(POS)
    pre: SYN_RE.fullmatch(s) is not None
    post: _
    '''
    got = pyx12.map_if.segment_if._split_syntax(None, s)
    exp = [s[0]] + [int(s[1 + 2 * i:3 + 2 * i]) for i in range(len(POS))]
    return got == exp


def h_split_reject(s: str) -> bool:
    '''
    pre: 1 <= len(s) <= 5
    pre: s[0] != 'P' and s[0] != 'R' and s[0] != 'E' and s[0] != 'C' and s[0] != 'L'
    post: _
    '''
    return pyx12.map_if.segment_if._split_syntax(None, s) is None


# ------------------------------------------------------------------ routing through the real segment node
def _synthetic_map(notes, nele):
    xml = ['<transaction xid="TST"><name>synthetic</name>',
           '<loop xid="L1" type="explicit"><name>loop</name><usage>R</usage><pos>010</pos><repeat>1</repeat>',
           '<segment xid="TST"><name>Test Segment</name><usage>R</usage><pos>010</pos><max_use>1</max_use>']
    for n in notes:
        xml.append('<syntax>%s</syntax>' % n)
    for i in range(1, nele + 1):
        xml.append('<element xid="TST%02d"><data_ele>127</data_ele><name>Element %d</name><usage>S</usage><seq>%02d</seq></element>'
                   % (i, i, i))
    xml.append('</segment></loop></transaction>')
    root = et.fromstring(''.join(xml))
    return pyx12.map_if.map_if(root, pyx12.params.params())


_MAP = _synthetic_map(NOTES, NELE)
_NODE = _MAP.getnodebypath('/L1/TST')
_PARSED = [(n[0], [int(n[1 + 2 * i:3 + 2 * i]) for i in range((len(n) - 1) // 2)]) for n in NOTES]


def h_routing(length: int, f1: bool, f2: bool, f3: bool, f4: bool, f5: bool, f6: bool, fill: str) -> bool:
    '''
    pre: 0 <= length <= NELE
    pre: FILL.fullmatch(fill) is not None
    post: _
    '''
    flags = [f1, f2, f3, f4, f5, f6]
    seg = _segment(length, flags, fill)
    errh = pyx12.error_handler.errh_list()
    res = _NODE.is_valid(seg, errh)
    expected = []
    for (typ, pos) in _PARSED:
        pres = [(p <= length and flags[p - 1]) for p in pos]
        if spec_violated(typ, pres):
            expected.append(('10' if typ == 'E' else '2', pos[0]))
    got = [(e[0], e[3]) for e in errh.err_ele]
    msgs_ok = all([e[1].startswith('Syntax Error') for e in errh.err_ele])
    return got == expected and msgs_ok and res == (len(expected) == 0)


# ------------------------------------------------------------------ obligation table
def _ob(name, fn, tier, timeout, kind='ch', **params):
    return {'name': name, 'fn': fn, 'kind': kind, 'tier': tier, 'timeout': timeout, 'params': params}


def _shipped_notes():
    """Distinct syntax notes of the shipped maps (re-extracted from the files on every run)."""
    import glob
    import os
    import pyx12
    seen = set()
    for f in sorted(glob.glob(os.path.join(os.path.dirname(pyx12.__file__), 'map', '*.xml'))):
        try:
            for m in re.finditer(r'<syntax>\s*([A-Z][0-9]+)\s*</syntax>', open(f, encoding='utf-8', errors='replace').read()):
                seen.add(m.group(1))
        except OSError:
            pass
    return sorted(seen)


import itertools
OBLIGATIONS = []
_quick_tuples = [c for r in (2, 3, 4) for c in itertools.combinations((1, 2, 3, 4), r)] + [(2, 1), (3, 1, 2), (4, 2)]
for tup in _quick_tuples:
    OBLIGATIONS.append(_ob('generic_' + ''.join('%02d' % p for p in tup), 'h_generic', 'quick', 900, pos=list(tup), maxl=max(tup) + 1))
_thorough = [c for r in (2, 3, 4, 5) for c in itertools.combinations((1, 2, 3, 4, 5), r) if 5 in c]
_thorough += [c for c in itertools.permutations((1, 2, 3), 3) if list(c) != sorted(c)] + [(3, 2), (5, 1)]
for tup in _thorough:
    OBLIGATIONS.append(_ob('generic_' + ''.join('%02d' % p for p in tup), 'h_generic', 'thorough', 1800, pos=list(tup), maxl=max(tup) + 1))
for n in (2, 3):
    OBLIGATIONS.append(_ob('split_arity%d' % n, 'h_split', 'quick', 600, pos=list(range(1, n + 1))))
for n in (4, 5):
    OBLIGATIONS.append(_ob('split_arity%d' % n, 'h_split', 'quick', 900, pos=list(range(1, n + 1))))
OBLIGATIONS.append(_ob('split_reject', 'h_split_reject', 'quick', 300))
_SHIPPED = _shipped_notes()
for idx, note in enumerate(_SHIPPED):
    pos = [int(note[1 + 2 * i:3 + 2 * i]) for i in range((len(note) - 1) // 2)]
    OBLIGATIONS.append(_ob('shipped_' + note, 'h_generic', 'quick' if idx % 5 == 0 else 'thorough', 900,
                           pos=pos, type=note[0], maxl=max(pos) + 1))
for notes in (['P0102'], ['R0203'], ['E0103'], ['C0302'], ['L010203'], ['P0203', 'C0405'], ['E0102', 'R0304', 'L050601']):
    OBLIGATIONS.append(_ob('routing_' + '_'.join(notes), 'h_routing', 'quick' if len(notes) < 3 else 'thorough', 900,
                           notes=notes, nele=6))
OBLIGATIONS.append(_ob('routing_P0102_P0304_short', 'h_routing', 'quick', 900, notes=['P0102', 'P0304'], nele=4))

LEVEL = 'other'
EXPLANATION = __doc__
BOUNDS = ('generic: every ascending position tuple of arity 2..4 over positions 1..4 (plus three unordered ones) x all five types (symbolic) x '
          'segment length 0..max+1 x all presence patterns x any filler character; thorough adds position 5, arity 5 and all orders of (1,2,3); '
          'shipped: every distinct note text found in the shipped map files (%d today; every fifth in quick, all in thorough) with length 0..max+1 - '
          'positions above 6 are only exercised with the elements before them absent... see per-obligation bounds; parsing: every string '
          '[PRECL]([0-9]{2}){2,3} (5 thorough); routing: synthetic 6-element segment built by the real loader, 1..3 notes, every length 0..6 and presence pattern.'
          % len(_SHIPPED))
OUTSIDE = ('notes with more than 5 positions; segments longer than max position + 1 (longer segments only add elements the note does not mention); '
           'malformed <syntax> texts (C16); interaction with composite elements (a composite counts as present when its formatted value is non-empty - not explored).')
ASSUMPTIONS = [
    'X12 definitions: P some-but-not-all; R none; E more than one; C first present and any other absent; L first present and all others absent',
    'present = position inside the segment and value non-empty',
    'routing uses a synthetic map parsed by the real map_if loader (elements AN 1/50, usage S, data element 127) so that no other element error can fire',
]
FUNCTIONS = ['pyx12/syntax.py:is_syntax_valid', 'pyx12/map_if.py:segment_if._split_syntax', 'pyx12/map_if.py:segment_if.is_valid']
