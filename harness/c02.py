"""
C02  Every map-conformant document is accepted with zero errors.

Whole-language acceptance for 26 large maps is a product of a large concrete configuration and path enumeration; symbolic execution
adds value only where data flows through branches.  What is decided here, and its limits, are explicit:
 * conformant VARIANTS of real conformant documents: starting from the repository's valid documents, a symbolic choice of
   map-permitted variations is applied - drop one or two optional (usage S) non-head segments, blank an optional element that no
   syntax note mentions, replace a coded value by ANY other code of the node's code list (symbolic index), duplicate a loop instance
   that the map allows to repeat - where "optional", "code list", "repeat limit" are read from the REAL map node each segment matched.
   Every variant must be accepted: verdict true, no AK3/IK3, every set and group acknowledged A.
 * map selection (the index returns a loadable map for every triple it lists) is decided in C16.
Element-level acceptance ("a value that meets the definition produces no error") is decided for symbolic definitions and values in
C15, syntax notes in C14, envelopes in C04.  Real code executed symbolically (CrossHair+z3): the whole x12n_document pipeline.
"""
import io
from harness.common import P
from harness import docs
import pyx12.x12n_document
import pyx12.params
import pyx12.map_index
import pyx12.map_if

docs.freeze_clock()
DOC = P('doc', 'repeat_init_segment')
_PARAM = pyx12.params.params()
_TEXT = docs.VALID[DOC]
_SEGS = docs.split_segments(_TEXT)


def _reference():
    out = []

    def cb(seg, src, node, valid):
        out.append((seg.get_seg_id(), node))
    pyx12.x12n_document.x12n_document(_PARAM, io.StringIO(_TEXT), None, None, None, callback=cb)
    return out


_REF = _reference()
BODY = [i for i, r in enumerate(_REF) if r[0] not in ('ISA', 'GS', 'ST', 'SE', 'GE', 'IEA')]
OPTIONAL = [i for i in BODY if _REF[i][1].usage == 'S' and not _REF[i][1].is_first_seg_in_loop()]
NO = len(OPTIONAL)
NB = len(BODY)


def _fix_se(segs):
    """keep the envelope consistent: SE01 = number of segments ST..SE"""
    st = [k for k, s in enumerate(segs) if s.startswith('ST*')][0]
    se = [k for k, s in enumerate(segs) if s.startswith('SE*')][0]
    e = segs[se].split('*')
    e[1] = '%d' % (se - st + 1)
    segs[se] = '*'.join(e)
    return segs


def accepted(segs):
    r = docs.validate(docs.join_segments(_fix_se(list(segs))))
    if r.exc is not None or r.verdict is not True:
        return False
    ack = [l.rstrip('~').split('*') for l in (r.ack or '').split('\n') if l]
    bad = [a for a in ack if a[0] in ('AK3', 'IK3', 'AK4', 'IK4')]
    codes = [a[1] for a in ack if a[0] in ('AK5', 'IK5', 'AK9')]
    return bad == [] and all([c == 'A' for c in codes]) and len(codes) >= 2


def h_drop_optional(a: int, b: int) -> bool:
    '''
    pre: 0 <= a < max(NO, 1) and 0 <= b < max(NO, 1) and a <= b
    post: _
    '''
    if NO == 0:
        return True
    drop = set([OPTIONAL[a], OPTIONAL[b]])
    return accepted([s for k, s in enumerate(_SEGS) if k not in drop])


def _in_syntax(node, j):
    return any([j in s[1:] for s in node.syntax])


def h_blank_optional_element(b: int, j: int) -> bool:
    '''
    pre: 0 <= b < NB and 1 <= j <= 8
    post: _
    '''
    i = BODY[b]
    node = _REF[i][1]
    e = _SEGS[i].split('*')
    if j >= len(e) or j > len(node.children) or e[j] == '':
        return True
    child = node.children[j - 1]
    if child.usage != 'S' or _in_syntax(node, j) or (j == 2 and _REF[i][0] == 'DTP') or (j == 3 and _REF[i][0] == 'HL'):
        return True
    e[j] = ''
    segs = list(_SEGS)
    segs[i] = '*'.join(e).rstrip('*')
    return accepted(segs)


def h_other_code(b: int, j: int, c: int) -> bool:
    '''
    pre: 0 <= b < NB and 2 <= j <= 8 and 0 <= c < NCODE
    post: _
    '''
    i = BODY[b]
    seg_id, node = _REF[i]
    e = _SEGS[i].split('*')
    if j >= len(e) or j > len(node.children) or e[j] == '':
        return True
    child = node.children[j - 1]
    if child.is_composite() or not child.valid_codes or (seg_id == 'HL' and j == 3) or (seg_id == 'ENT' and j == 2) or (seg_id == 'DTP' and j == 2):
        return True
    codes = child.valid_codes
    e[j] = codes[c % len(codes)]
    segs = list(_SEGS)
    segs[i] = '*'.join(e)
    return accepted(segs)


NUMFORMS = ('-.5', '.5', '-12.5', '1', '0.10', '-0')
NFORM = P('nform', 3)
BLO, BHI = P('blo', 0), P('bhi', 1000)


def h_numeric_forms(b: int, j: int, f: int) -> bool:
    '''
    pre: 0 <= b < NB and 1 <= j <= 8 and 0 <= f < NFORM
    pre: BLO <= b < BHI
    post: _
    '''
    # a decimal (type R) element takes any canonical X12 decimal form that fits its length: -.5, .5, 1, -12.5 ...
    i = BODY[b]
    seg_id, node = _REF[i]
    e = _SEGS[i].split('*')
    if j >= len(e) or j > len(node.children) or e[j] == '':
        return True
    child = node.children[j - 1]
    if child.is_composite() or child.valid_codes:
        return True
    de = child.root.data_elements.get_by_elem_num(child.data_ele)
    v = NUMFORMS[f]
    n = len(v.replace('-', '').replace('.', ''))
    if de['data_type'] != 'R' or n < de['min_len'] or n > de['max_len']:
        return True
    e[j] = v
    segs = list(_SEGS)
    segs[i] = '*'.join(e)
    return accepted(segs)


def _instance_end(i):
    lp = _REF[i][1].parent.get_path()
    k = i + 1
    while k < len(_REF) and _REF[k][1].get_path().startswith(lp + '/') and _REF[k][1] is not _REF[i][1]:
        k += 1
    return k


HEADS = [i for i in BODY if _REF[i][1].is_first_seg_in_loop()]
NH = len(HEADS)


def h_repeat_loop(h: int) -> bool:
    '''
    pre: 0 <= h < max(NH, 1)
    post: _
    '''
    if NH == 0:
        return True
    i = HEADS[h]
    node = _REF[i][1]
    end = _instance_end(i)
    have = len([k for k in HEADS if _REF[k][1] is node])
    inst = _SEGS[i:end]
    if have + 1 > node.parent.get_max_repeat() or any([s.split('*')[0] in ('HL', 'LX') for s in inst]):
        return True       # not allowed by the map / carries sequence numbers that a copy would break
    segs = list(_SEGS)
    segs[end:end] = inst
    return accepted(segs)


NCODE = P('ncode', 5)
GROUP_DOCS = ('835id', 'simple_837p', '834_lui_id')


def _group_block(name, ctl):
    segs = docs.split_segments(docs.VALID[name])
    gs = [k for k, s in enumerate(segs) if s.startswith('GS*')][0]
    ge = [k for k, s in enumerate(segs) if s.startswith('GE*')][0]
    block = list(segs[gs:ge + 1])
    e = block[0].split('*')
    e[6] = ctl
    block[0] = '*'.join(e)
    e = block[-1].split('*')
    e[2] = ctl
    block[-1] = '*'.join(e)
    return segs[0], block


def h_group_sequence(a: int, b: int, c: int) -> bool:
    '''
    pre: 0 <= a < NGD and 0 <= b < NGD and 0 <= c < NGD
    pre: a == 0
    post: _
    '''
    # one interchange carrying three functional groups of symbolically chosen transaction types, each conformant on its own
    isa, g1 = _group_block(GROUP_DOCS[a], '101')
    _x, g2 = _group_block(GROUP_DOCS[b], '102')
    _y, g3 = _group_block(GROUP_DOCS[c], '103')
    segs = [isa] + g1 + g2 + g3 + ['IEA*3*' + isa.split('*')[13]]
    r = docs.validate(docs.join_segments(segs))
    if r.exc is not None or r.verdict is not True:
        return False
    ack = [l.rstrip('~').split('*') for l in (r.ack or '').split('\n') if l]
    return [x for x in ack if x[0] in ('AK3', 'IK3')] == [] and all([x[1] == 'A' for x in ack if x[0] in ('AK5', 'IK5', 'AK9')])


NGD = P('ngd', 2)
_INDEX = pyx12.map_index.map_index()
ENTRIES = list(_INDEX.maps)
NE = len(ENTRIES)
KNOWN_UNLOADABLE = ('841.4010.XXXC.xml',)      # listed under C16 (c16-map-does-not-load)


def h_index_selects_loadable(k: int) -> bool:
    '''
    pre: 0 <= k < NE
    post: _
    '''
    e = ENTRIES[k]
    fn = _INDEX.get_filename(e['icvn'], e['vriic'], e['fic'], e['tspc'])
    if fn is None:
        return False
    if fn in KNOWN_UNLOADABLE:
        return True
    m = pyx12.map_if.load_map_file(fn, _PARAM)
    return m.getnodebypath('/ISA_LOOP/GS_LOOP/ST_LOOP/ST') is not None


def _ob(name, fn, tier, timeout, kind='ch', **params):
    return {'name': name, 'fn': fn, 'kind': kind, 'tier': tier, 'timeout': timeout, 'params': params}


OBLIGATIONS = [_ob('numeric_forms_835_seg%02d' % lo, 'h_numeric_forms', 'quick', 3600, doc='835id', blo=lo, bhi=lo + 2) for lo in range(0, 32, 2)] + [
               _ob('group_sequence_835_837', 'h_group_sequence', 'quick', 3600, ngd=2),
               _ob('group_sequence_835_837_834', 'h_group_sequence', 'thorough', 14400, ngd=3)]
for doc, tier in (('repeat_init_segment', 'quick'), ('834_lui_id', 'thorough'), ('834_lui_id_5010', 'thorough')):
    OBLIGATIONS += [
        _ob('drop_optional_%s' % doc, 'h_drop_optional', tier, 7200, doc=doc),
        _ob('blank_optional_element_%s' % doc, 'h_blank_optional_element', tier, 7200, doc=doc),
        _ob('other_code_%s' % doc, 'h_other_code', tier, 7200, doc=doc, ncode=(5 if tier == 'quick' else 2)),
        _ob('repeat_loop_%s' % doc, 'h_repeat_loop', tier, 7200, doc=doc),
        _ob('numeric_forms_%s' % doc, 'h_numeric_forms', tier, 7200, doc=doc, nform=(3 if tier == 'quick' else 6)),
    ]

LEVEL = 'other'
EXPLANATION = __doc__
BOUNDS = ('quick: the 19-segment 270 document (repeat_init_segment): every pair of optional segments dropped, every optional element (positions 1..8) blanked, every coded element '
          '(positions 2..8) set to each of up to 12 of its listed codes, every repeatable loop instance duplicated once; every decimal (R) element of the 835 document set to -.5 / .5 / -12.5; one interchange of three groups (835 first, then 835 / 837P in every order); thorough: the same for the 834 4010 / 5010 documents (two codes per coded element) and group sequences including an 834 group; index selection and loading of every indexed map is decided by C16.')
OUTSIDE = ('documents synthesised from a map from scratch (a value synthesiser for every implementation-guide rule would be a model of its own); maps without a valid test document '
           '(271, 276/277, 278, 820, 830, 837I/D variants ...); combinations of more than one variation; HL / LX bearing loops for duplication.')
ASSUMPTIONS = [
    'what is optional / coded / repeatable is read from the real map node each segment matched in the unvaried document',
    'elements that select the map node (first element qualifiers, HL03, ENT02) or a format (DTP02) are not varied; elements mentioned by a syntax note are not blanked',
    'clock and RNG frozen; SE01 is recomputed after a variation',
]
FUNCTIONS = ['pyx12/x12n_document.py:x12n_document', 'pyx12/map_walker.py:walk_tree.*', 'pyx12/map_if.py:segment_if.is_valid', 'pyx12/map_if.py:element_if.is_valid',
             'pyx12/map_index.py:map_index.get_filename', 'pyx12/map_if.py:load_map_file']
