"""
C19  HTML report shows every segment and error, with all source data escaped.

Real code executed symbolically (CrossHair+z3): error_html.escape_html_chars, error_html.gen_seg / _seg_str / _wrap_ele_error /
seg_str / header / footer, with error nodes produced by the REAL err_handler API (add_isa_loop .. add_seg / seg_error / add_ele /
ele_error).
Values, segment id, error messages and delimiters come from hostile alphabets containing < > & " ' and blank.
Oracle: after removing the report's own fixed template tags the text contains no '<' or '>', every '&' starts one of the four
entities, un-escaping recovers the segment text, and every supplied error message appears (escaped) after the segment line.
"""
import re
from harness.common import P
import pyx12.error_html
import pyx12.error_handler
from pyx12.error_html import escape_html_chars, error_html
from pyx12.segment import Segment
from harness.errtree import Src, MapNode, isa_segment, gs_segment, st_segment, seg_of

MAXN = P('maxn', 3)
NERR = P('nerr', 1)

ENT = re.compile('([^&<> ]|&amp;|&lt;|&gt;|&nbsp;)*', re.S)
HOSTILE = ('<b>', '&', 'A B', '>', '"x\'', '&lt;', 'ok', '<', ' ')
NH = len(HOSTILE)


def unescape(s):
    return s.replace('&lt;', '<').replace('&gt;', '>').replace('&nbsp;', ' ').replace('&amp;', '&')


def h_escape(t: str) -> bool:
    '''
    pre: len(t) <= MAXN
    post: _
    '''
    out = escape_html_chars(t)
    return ENT.fullmatch(out) is not None and unescape(out) == t


def h_escape_none(dummy: bool) -> bool:
    '''
    post: _
    '''
    return escape_html_chars(None) is None


class Sink(object):
    def __init__(self):
        self.parts = []

    def write(self, t):
        self.parts.append(t)

    def getvalue(self):
        return ''.join(self.parts)


TAGS = ('<span class="seg">', '<span class="error">', '<span class="info">', '<span class="ele_err">', '</span>', '<br />')


def strip_template(html):
    for t in TAGS:
        html = html.replace(t, '\x00')
    return html


def _tree():
    errh = pyx12.error_handler.err_handler()
    src = Src()
    src.isa_id, src.gs_id, src.st_id, src.cur_line = '000000001', '17', '0001', 3
    errh.add_isa_loop(isa_segment(), src)
    errh.add_gs_loop(gs_segment(), src)
    errh.add_st_loop(st_segment(), src)
    return errh, src


SEGIDS = ('NM1', 'N<1', 'A&', 'RE>', 'ZZ')
DELIMS = (('~', '*', ':'), ('~', '*', '>'), ('<', '|', '&'), ('~', '>', '<'))


VARY = P('vary', 'values')


def h_gen_seg(si: int, v1: int, v2: int, v3: int, two: bool, m1: int, m2: int, d: int, line: int) -> bool:
    '''
    pre: 0 <= si < 5 and 0 <= v1 < NH and 0 <= v2 < 4 and 0 <= v3 < 2 and 0 <= m1 < NH and 0 <= m2 < NH and 0 <= d < 4
    pre: 1 <= line <= 3
    pre: VARY == 'values' or (v1 == 0 and v2 == 1 and v3 == 0 and not two)
    pre: VARY == 'messages' or (m1 == 0 and m2 == 1)
    pre: VARY == 'id' or (si == 0 and line == 1)
    pre: two or v3 == 0
    post: _
    '''
    # one segment with hostile id / values / delimiters, one segment-level and one element-level error whose messages are hostile too
    st, et, ct = DELIMS[d]
    sid = SEGIDS[si]
    vals = [HOSTILE[v1], HOSTILE[v2], HOSTILE[v3]]
    if any([(x in v) for v in vals + [sid] for x in (st, et, ct)]):
        return True     # data never contains the interchange's own delimiters
    seg = Segment(sid, st, et, ct)
    seg.append(vals[0])
    seg.append((vals[1] + ct + vals[2]) if two else vals[1])
    errh, src = _tree()
    src.cur_line = line
    errh.add_seg(MapNode('Seg name', 20), seg, 4, line, None)
    seg_msg = 'Segment problem (%s)' % HOSTILE[m1]
    ele_msg = '(%s) is not a valid code' % HOSTILE[m2]
    errh.seg_error('8', seg_msg, None)
    errh.add_ele(MapNode('Ele', data_ele='66', seq=2))
    errh.ele_error('7', ele_msg, HOSTILE[m2], 'X02')
    out = Sink()
    html = error_html(errh, out, (st, et, ct, '\n'))
    html.gen_seg(seg, src, [errh.cur_seg_node])
    text = out.getvalue()
    plain = strip_template(text)
    no_markup = '<' not in plain and '>' not in plain
    shows_line = ('%i:&nbsp;' % line) in text
    shows_msgs = escape_html_chars(seg_msg) in text and escape_html_chars(ele_msg) in text
    order = text.find('<span class="seg">') < text.find(escape_html_chars(ele_msg))
    # stripping the markup and un-escaping the segment line recovers the source segment text
    start = text.find('<span class="seg">')
    end = text.find('</span><br />', start)
    line_plain = text[start + 18:end].replace('<span class="ele_err">', '').replace('</span>', '')
    recovered = unescape(line_plain.split(':&nbsp;', 1)[1]) == seg.format(st, et, ct)
    return no_markup and shows_line and shows_msgs and order and recovered


POSITIONS = ((1, None), (2, 1), (2, 2), (2, 3), (3, None))


ECODES = ('7', '3', '1', '6', '10')


def h_gen_seg_multi(p1: int, p2: int, p3: int, n: int, m: int, ec: int) -> bool:
    '''
    pre: 0 <= p1 < 5 and 0 <= p2 < 5 and 0 <= p3 < 5 and 1 <= n <= 3 and 0 <= m < NH and 0 <= ec < 5
    pre: ec == 0 or m == 0
    pre: p1 != p2 and p1 != p3 and p2 != p3
    post: _
    '''
    # n element-level errors at distinct (element, component) positions of one segment - several of them inside the same composite -
    # plus two segment-level errors: EVERY message is shown after the segment line
    seg = seg_of('CLM', 'A1', 'B:C:D', 'E')
    errh, src = _tree()
    errh.add_seg(MapNode('Claim', 130), seg, 7, 12, None)
    errh.seg_error('8', 'first segment problem', None)
    errh.seg_error('5', 'second segment problem %s' % HOSTILE[m], None)
    msgs = []
    for k, p in enumerate([p1, p2, p3][:n]):
        (ele, sub) = POSITIONS[p]
        if sub is None:
            errh.add_ele(MapNode('E%d' % ele, data_ele='66', seq=ele))
        else:
            errh.add_ele(MapNode('E%d-%d' % (ele, sub), data_ele='67', seq=sub, in_composite=True, comp_seq=ele))
        msg = 'element problem %d at %d-%s %s' % (k, ele, sub, HOSTILE[m])
        errh.ele_error(ECODES[(ec + k) % 5], msg, 'bad', 'CLM%02d' % ele)
        msgs.append(msg)
    src.cur_line = 12
    out = Sink()
    html = error_html(errh, out, ('~', '*', ':', '\n'))
    html.gen_seg(seg, src, [errh.cur_seg_node])
    text = out.getvalue()
    at = text.find('<span class="seg">12:&nbsp;CLM')
    shown = all([text.find(escape_html_chars(x)) > at for x in msgs + ['first segment problem', 'second segment problem %s' % HOSTILE[m]]])
    plain = strip_template(text)
    return at >= 0 and shown and '<' not in plain and '>' not in plain


def h_footer(have_gs: bool, have_st: bool, closed_st: bool, m: int) -> bool:
    '''
    pre: 0 <= m < NH
    pre: have_gs or not have_st
    post: _
    '''
    # header + footer make a complete document for every cursor state (no GS yet, no ST yet, open or closed set); trailing
    # envelope errors are shown escaped
    errh = pyx12.error_handler.err_handler()
    src = Src()
    src.isa_id, src.cur_line = '000000001', 1
    errh.add_isa_loop(isa_segment(), src)
    if have_gs:
        src.gs_id = '17'
        errh.add_gs_loop(gs_segment(), src)
    if have_st:
        src.st_id = '0001'
        errh.add_st_loop(st_segment(), src)
        if closed_st:
            src.cur_line = 9
            errh.close_st_loop(None, seg_of('SE', '2', '0001'), src)
        else:
            errh.st_error('2', 'Mandatory segment "Transaction Set Trailer" (SE=%s) missing' % HOSTILE[m])
    errh.isa_error('023', 'Mandatory segment "Interchange Control Trailer" (IEA=%s) missing' % HOSTILE[m])
    out = Sink()
    html = error_html(errh, out, ('~', '*', ':', '\n'))
    html.header()
    html.footer()
    text = out.getvalue()
    body = text[text.find('<div class="segs"'):text.find('</div>')]
    plain = strip_template(body.replace('<div class="segs" style="">', ''))
    complete = text.startswith('<html>') and text.rstrip().endswith('</html>') and '<body>' in text and '</body>' in text
    shown = escape_html_chars('(IEA=%s) missing' % HOSTILE[m]) in body and \
        ((not have_st or closed_st) or escape_html_chars('(SE=%s) missing' % HOSTILE[m]) in body)
    return complete and shown and '<' not in plain and '>' not in plain


def _ob(name, fn, tier, timeout, kind='ch', **params):
    return {'name': name, 'fn': fn, 'kind': kind, 'tier': tier, 'timeout': timeout, 'params': params}


OBLIGATIONS = [
    _ob('escape_le3', 'h_escape', 'quick', 600, maxn=3),
    _ob('escape_le4', 'h_escape', 'thorough', 5400, maxn=4),
    _ob('escape_none', 'h_escape_none', 'quick', 60),
    _ob('gen_seg_values', 'h_gen_seg', 'quick', 1500, vary='values'),
    _ob('gen_seg_messages', 'h_gen_seg', 'quick', 1500, vary='messages'),
    _ob('gen_seg_id_line', 'h_gen_seg', 'quick', 900, vary='id'),
    _ob('gen_seg_multi_errors', 'h_gen_seg_multi', 'quick', 900),
    _ob('footer', 'h_footer', 'quick', 600),
]

LEVEL = 'other'
EXPLANATION = __doc__
BOUNDS = ('escape: every unicode string of <= 3 (4 thorough) characters; gen_seg: segment id from 5, values / error-message payloads from 9 hostile strings (varied one group at a time: values, messages, id+line), 4 delimiter triples (including < > & as delimiters), simple element or composite, line number 1..3 - all chosen symbolically; '
          'footer: every cursor state (no GS / no ST / open / closed set) x 9 hostile payloads.')
OUTSIDE = ('whole-document reports (the per-segment line and the footer are the units);  loop-info lines '
           '(text comes from the map, not the input); values chosen from tables because %-formatting with %i in gen_seg concretises symbolic strings.')
ASSUMPTIONS = [
    'error nodes are built through the real err_handler API with stub map nodes (name, pos, data_ele, seq) and a stub reader (ids, line)',
    'the report\'s own template tags are the six fixed strings in TAGS; everything else must be free of < and >',
]
FUNCTIONS = ['pyx12/error_html.py:escape_html_chars', 'pyx12/error_html.py:error_html.gen_seg', 'pyx12/error_html.py:error_html._seg_str',
             'pyx12/error_html.py:error_html.footer', 'pyx12/error_html.py:error_html.header', 'pyx12/error_html.py:seg_str']
