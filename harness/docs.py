"""
Shared document library and native pipeline driver for the pipeline-level harnesses (C02 C03 C05 C06 C07 C08 C09 C12 C18).
Documents are the repository's own valid test documents (pyx12.test.x12testdata) - re-validated natively at import - plus small
synthetic 997 / 999 documents.
"""
import io
import logging
import random
import time

import pyx12.error_handler
import pyx12.params
import pyx12.x12n_document
import pyx12.test.x12testdata as _td

logging.disable(logging.CRITICAL)

FIXED_TIME = {'%y%m%d': '260927', '%H%M': '1200', '%Y%m%d': '20260927', '%H%M%S': '120000', '%m/%d/%Y %H:%M:%S': '09/27/2026 12:00:00'}
_real_strftime = time.strftime
_real_randint = random.randint


def freeze_clock():
    """Environment stub: the clock and the RNG return arbitrary-but-fixed values of the documented shapes."""
    time.strftime = lambda fmt, *a: FIXED_TIME.get(fmt, _real_strftime(fmt, *a))
    random.randint = lambda a, b: 123456789


def split_segments(text, seg_term='~'):
    return [s.lstrip('\r\n') for s in text.split(seg_term) if s.strip('\r\n') != '']


def join_segments(segs, seg_term='~', eol='\n'):
    return ''.join(s + seg_term + eol for s in segs)


VALID_NAMES = ('834_lui_id', '835id', 'repeat_init_segment', '834_lui_id_5010', 'simple_837p', 'ordinal', 'simple_837i')
VALID = {k: _td.datafiles[k]['source'] for k in VALID_NAMES}
INVALID_NAMES = ('837miss', 'mult_isa', 'trailer_errors', 'trailing_terms', 'elements', 'blank1', 'multiple_trn', 'simple1', 'fail_no_IEA')
INVALID = {k: _td.datafiles[k]['source'] for k in INVALID_NAMES}

ISA = 'ISA*00*          *00*          *ZZ*SENDER         *ZZ*RECEIVER       *040608*1333*U*00401*000000001*0*P*:'
ISA5 = 'ISA*00*          *00*          *ZZ*SENDER         *ZZ*RECEIVER       *040608*1333*^*00501*000000001*0*P*:'
DOC_997 = join_segments([ISA, 'GS*FA*SENDERGS*RECEIVERGS*20040608*1333*17*X*004010', 'ST*997*0001', 'AK1*HC*17',
                         'AK2*837*0001', 'AK3*NM1*4**8', 'AK4*3*66*7*ZZ', 'AK5*R*5', 'AK9*R*1*1*0', 'SE*8*0001', 'GE*1*17',
                         'IEA*1*000000001'])
DOC_999 = join_segments([ISA5, 'GS*FA*SENDERGS*RECEIVERGS*20040608*1333*17*X*005010X231', 'ST*999*0001*005010X231',
                         'AK1*HC*17*005010X222A1', 'AK2*837*0001*005010X222A1', 'IK3*NM1*4**8', 'IK4*3*66*7*ZZ', 'IK5*R*5',
                         'AK9*R*1*1*0', 'SE*8*0001', 'GE*1*17', 'IEA*1*000000001'])
VALID['997'] = DOC_997


def _multi(isa, gs_ver, st_tail, ak_tail, k3, k4, k5):
    """two interchanges, each with two functional groups of two transaction sets (same ids repeat at every level)"""
    segs = []
    for ic in (1, 2):
        segs.append(isa.replace('000000001', '00000000%i' % ic))
        for g in (1, 2):
            segs.append('GS*FA*SENDERGS*RECEIVERGS*20040608*1333*%i*X*%s' % (g, gs_ver))
            for s in (1, 2):
                segs += ['ST*997*000%i%s' % (s, st_tail), 'AK1*HC*17' + ak_tail, 'AK2*837*0001' + ak_tail, k3 + '*NM1*4**8',
                         k4 + '*3*66*7*ZZ', k5 + '*R*5', 'AK9*R*1*1*0', 'SE*8*000%i' % s]
            segs.append('GE*2*%i' % g)
        segs.append('IEA*2*00000000%i' % ic)
    return join_segments(segs)


VALID['997_multi'] = _multi(ISA, '004010', '', '', 'AK3', 'AK4', 'AK5')
VALID['999_multi'] = _multi(ISA5, '005010X231', '*005010X231', '*005010X222A1', 'IK3', 'IK4', 'IK5').replace('ST*997', 'ST*999')
VALID['999'] = DOC_999


class Result(object):
    pass


def validate(text, ack=True, html=False, xml=False, charset='E', param=None):
    """Run the real x12n_document on `text` (open text stream) with the requested sinks."""
    if param is None:
        param = pyx12.params.params()
        param.set('charset', charset)
    r = Result()
    fa = io.StringIO() if ack else None
    fh = io.StringIO() if html else None
    fx = io.StringIO() if xml else None
    r.exc = None
    try:
        r.verdict = pyx12.x12n_document.x12n_document(param, io.StringIO(text), fa, fh, fx)
    except Exception as e:  # noqa - the caller decides what is allowed
        r.verdict = None
        r.exc = e
    r.ack = fa.getvalue() if fa else None
    r.html = fh.getvalue() if fh else None
    r.xml = fx.getvalue() if fx else None
    return r


def native_selfcheck():
    bad = [k for k, v in VALID.items() if validate(v).verdict is not True]
    return bad
