"""
C20  The normaliser preserves content, is idempotent and repairs counts.

Real code executed symbolically (CrossHair+z3): pyx12.scripts.x12norm.main (the whole command: argument parsing, glob, reading by
PATH through X12Reader/RawX12File, Segment.format / set, destination handling), with the operating system replaced by stubs:
an in-memory file system behind `open` (path reading in pyx12.x12file, writing in x12norm), identity glob, in-memory temporary file,
captured stdout.
Symbolic choices: the option combination (eol, fixcounting, destination = stdout / --output / --inplace), the delimiters of the input,
its line-break convention, and for every count field (IEA01, GE01, SE01, HL01) whether it is right or which wrong token it carries.
"""
import io
import sys
import logging
from harness.common import P
from harness import docs
import pyx12.x12file
import pyx12.scripts.x12norm as x12norm
from pyx12.x12file import X12Reader

import pyx12.rawx12file
pyx12.rawx12file.DEFAULT_BUFSIZE = P('bs', 5)      # small read buffer: every character of the body meets a refill boundary
SHAPE = P('shape', 0)
DELIMS = (('~', '*', ':'), ('!', '|', '>'), ('\n', '*', ':'))
EOLS = ('', '\n', '\r\n')
WRONG = ('0', '9', '', 'X', '01')


class MemFile(object):
    """text file in the in-memory file system (read and write)"""
    closed = False

    def __init__(self, fs, path, mode):
        self.fs, self.path, self.mode = fs, path, mode
        self.pos = 0
        if 'w' in mode:
            self.fs[path] = ''

    def read(self, n=-1):
        data = self.fs.get(self.path, '')
        if n is None or n < 0:
            out = data[self.pos:]
        else:
            out = data[self.pos:self.pos + n]
        self.pos += len(out)
        return out

    def write(self, t):
        self.fs[self.path] = self.fs.get(self.path, '') + t

    def seek(self, p):
        self.pos = p

    def close(self):
        self.closed = True

    def __enter__(self):
        return self

    def __exit__(self, *a):
        self.close()


def run_norm(fs, argv):
    """x12norm.main() with the OS stubbed; returns what went to stdout."""
    out = io.StringIO()

    def fake_open(path, mode='r', *a, **k):
        if not set(mode) <= set('rwxabt+') or len(set(mode) & set('rwxa')) != 1:
            raise ValueError("invalid mode: '%s'" % mode)
        if 'r' in mode and path not in fs:
            raise FileNotFoundError(path)
        return MemFile(fs, path, mode)
    saved = (sys.argv, sys.stdout, x12norm.glob.iglob, x12norm.os.path.isfile, x12norm.tempfile.TemporaryFile,
             pyx12.x12file.__dict__.get('open'), x12norm.__dict__.get('open'))
    root = logging.getLogger()
    handlers = list(root.handlers)
    try:
        sys.argv = ['x12norm'] + argv
        sys.stdout = out
        x12norm.glob.iglob = lambda p: iter([p])
        x12norm.os.path.isfile = lambda p: p in fs
        x12norm.tempfile.TemporaryFile = lambda *a, **k: MemFile({}, 'tmp', 'w+')
        pyx12.x12file.open = fake_open
        x12norm.open = fake_open
        x12norm.main()
    finally:
        sys.argv, sys.stdout = saved[0], saved[1]
        x12norm.glob.iglob, x12norm.os.path.isfile, x12norm.tempfile.TemporaryFile = saved[2], saved[3], saved[4]
        for mod, old in ((pyx12.x12file, saved[5]), (x12norm, saved[6])):
            if old is None:
                mod.__dict__.pop('open', None)
            else:
                mod.open = old
        root.handlers[:] = handlers
    return out.getvalue()


def make_doc(d, eol, iea, ge, se, hl):
    """7-segment interchange; every count field is right (index 0) or one of the WRONG tokens"""
    st, et, ct = DELIMS[d]
    def tok(right, k):
        return right if k == 0 else WRONG[k - 1]
    segs = ['ISA*00*          *00*          *ZZ*SENDER         *ZZ*RECEIVER       *040608*1333*U*00401*000000001*0*P*' + ct,
            'GS*HC*S*R*20040608*1333*17*X*004010X098A1', 'ST*837*0001', 'BHT*0019*00*A B  C D*20040608*1333*CH',
            'HL*%s**20*1' % tok('1', hl), 'SE*%s*0001' % tok('4', se), 'GE*%s*17' % tok('1', ge), 'IEA*%s*000000001' % tok('1', iea)]
    if SHAPE == 1:      # a second interchange without any functional group
        segs += [segs[0].replace('000000001', '000000002'), 'TA1*000000001*040608*1333*A*000', 'IEA*0*000000002']
    elif SHAPE == 2:    # a second, empty functional group
        segs = segs[:7] + ['GS*HC*S*R*20040608*1333*18*X*004010X098A1', 'GE*0*18', 'IEA*%s*000000001' % tok('2', iea)]
    text = ''.join(s.replace('*', et) + st + eol for s in segs)
    return text, [s.replace('*', et) for s in segs]


def extra_indices():
    """indices of the segments added by SHAPE (their counts are right by construction and must not be touched)"""
    if SHAPE == 1:
        return (8, 9, 10)
    if SHAPE == 2:
        return (7, 8)
    return ()


def read_back(text):
    """(segment texts, envelope/count error codes) of a text through the real reader"""
    r = X12Reader(io.StringIO(text))
    segs, errs = [], []
    for s in r:
        segs.append(s.format('', r.ele_term, r.subele_term))
        errs.extend(r.pop_errors())
    r.cleanup()
    errs.extend(r.pop_errors())
    return segs, [e[1] for e in errs], (r.seg_term, r.ele_term, r.subele_term)


def h_norm(d: int, e: int, opt_eol: bool, fix: bool, dest: int, iea: int, ge: int, se: int, hl: int) -> bool:
    '''
    pre: 0 <= d < 3 and 0 <= e < 3 and 0 <= dest < 3
    pre: 0 <= iea < 6 and 0 <= ge < 6 and 0 <= se < 6 and 0 <= hl < 6
    pre: FAMILY != 'options' or (iea == 0 and ge == 0 and se == 0 and hl == 0)
    pre: FAMILY != 'counts' or (d == 0 and e == 1 and dest == 0 and opt_eol)
    pre: FAMILY != 'counts' or (iea in TOKQ and ge in TOKQ and se in TOKQ and hl in TOKQ)
    pre: IEAFIX is None or iea == IEAFIX
    post: _
    '''
    text, segs = make_doc(d, EOLS[e], iea, ge, se, hl)
    st, et, ct = DELIMS[d]
    fs = {'in.x12': text}
    argv = (['-e'] if opt_eol else []) + (['-f'] if fix else []) + (['-o', 'out.x12'] if dest == 1 else []) + (['-i'] if dest == 2 else []) + ['in.x12']
    stdout = run_norm(fs, argv)
    got = {0: stdout, 1: fs.get('out.x12'), 2: fs['in.x12']}[dest]
    if got is None or (dest != 0 and stdout != '') or (dest != 2 and fs['in.x12'] != text):
        return False
    # one segment per line iff --eol; same delimiters
    body = got[:-1] if (not opt_eol and got.endswith('\n') and st != '\n') else got
    if opt_eol:
        lines = body.split(st + '\n') if st != '\n' else body.split('\n\n')
    else:
        lines = body.split(st)
    out_segs = [x for x in lines if x != '']
    def _wrong(k, true):
        t = true if k == 0 else WRONG[k - 1]
        return not (t.isdigit() and int(t) == int(true))
    iea_true = '2' if SHAPE == 2 else '1'
    wrong = {'IEA': _wrong(iea, iea_true), 'GE': _wrong(ge, '1'), 'SE': _wrong(se, '4'), 'HL': _wrong(hl, '1')}
    exp = []
    for k, s in enumerate(segs):
        sid = s.split(et)[0]
        first_env = k not in extra_indices()
        if fix and wrong.get(sid) and first_env:
            f = s.split(et)
            f[1] = {'IEA': iea_true, 'GE': '1', 'SE': '4', 'HL': '1'}[sid]
            s = et.join(f)
        exp.append(s.rstrip(et) if sid != 'ISA' else s)
    # documented normalisation: trailing empty elements are trimmed (a segment id alone keeps one separator)
    exp = [x if et in x else x + et for x in exp]
    same = out_segs == exp
    # idempotence: normalising the output again changes nothing
    fs2 = {'in.x12': got}
    again = run_norm(fs2, (['-e'] if opt_eol else []) + (['-f'] if fix else []) + ['in.x12'])
    # repair: after --fixcounting no count error is left
    rsegs, codes, terms = read_back(got)
    repaired = (not fix) or not [c for c in codes if c in ('021', '5', '4', 'HL1')]
    return same and again == got and repaired and terms == (st, et, ct)


FAMILY = P('family', 'options')
TOKQ = tuple(P('tokq', [0, 2, 4]))
IEAFIX = P('ieafix', None)


def _ob(name, fn, tier, timeout, kind='ch', **params):
    return {'name': name, 'fn': fn, 'kind': kind, 'tier': tier, 'timeout': timeout, 'params': params}


OBLIGATIONS = [
    _ob('norm_options', 'h_norm', 'quick', 3600, family='options'),
    _ob('norm_counts', 'h_norm', 'quick', 3600, family='counts'),
    _ob('norm_options_two_interchanges', 'h_norm', 'quick', 3600, family='options', shape=1),
    _ob('norm_options_empty_group', 'h_norm', 'quick', 3600, family='options', shape=2),
] + [_ob('norm_counts_all_tokens_iea%d' % k, 'h_norm', 'thorough', 7200, family='counts', tokq=[0, 1, 2, 3, 4, 5], ieafix=k) for k in range(6)] + [
]

LEVEL = 'other'
EXPLANATION = __doc__
BOUNDS = ('one 8-segment interchange (plus shapes with a second, group-less interchange and with an empty second group), read through a 5-character buffer; options family: 3 delimiter triples (one with newline as segment terminator) x 3 line-break conventions x eol on/off x fixcounting on/off x '
          '3 destinations, counts right; counts family: every count field right or one of 2 (5 thorough) wrong tokens x fixcounting on/off, fixed options.')
OUTSIDE = ('real file-system semantics beyond the stub (permissions, encodings, large files - the 8 KiB refill is C01\'s); several input files / globbing; stdin; '
           'more than two interchanges / groups.')
ASSUMPTIONS = [
    'OS stubs: in-memory file system behind open() in pyx12.x12file and pyx12.scripts.x12norm (mode grammar of Python >= 3.11), identity glob, in-memory temporary file, captured stdout',
    'expected output: the input segments with trailing empty elements trimmed, wrong counts replaced by the recount only under --fixcounting',
]
FUNCTIONS = ['pyx12/scripts/x12norm.py:main', 'pyx12/x12file.py:X12Reader.*', 'pyx12/rawx12file.py:RawX12File.*', 'pyx12/segment.py:Segment.format', 'pyx12/segment.py:Segment.set']
