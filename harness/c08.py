"""
C08  X12 to XML to X12 is the identity on structurally valid documents.

Real code executed symbolically (CrossHair+z3): XMLWriter._escape_cont / _escape_attr / push / pop / elem,
x12xml_simple.seg (+ x12xml._path_list / _get_path_match_idx), xmlx12_simple.get_segment / convert, and - in the round-trip
obligations - the whole x12n_document pipeline with the XML sink.
 * escaping: every string of <= 3 characters: no raw markup, entity-closed, XML un-escaping gives the string back;
 * loop bookkeeping: for a symbolic PAIR (previous matched node, next matched node) of real map nodes (837 4010 X098 - its claim
   sub-tree exists under two different parents - and 997), with the writer stack initialised to the invariant
   "stack spells x12simple + path(previous)", one call of seg() must close and open exactly the loops by which the two map paths
   differ (a first-segment-of-the-same-loop transition re-opens exactly one), leave the stack spelling path(next), label the segment
   and every element / component with its reference designator, and the emitted <seg> must convert back to the source segment;
 * round trip: real valid documents (symbolic choice, optional hostile value) -> XML -> X12 gives the same segments.
"""
import io
import re
import xml.etree.ElementTree as et
from harness.common import P
from harness import docs
import pyx12.map_if
import pyx12.params
import pyx12.x12xml_simple
import pyx12.xmlx12_simple
from pyx12.xmlwriter import XMLWriter
from pyx12.segment import Segment
from pyx12.map_walker import pop_to_parent_loop

MAXN = P('maxn', 3)
MAPFILE = P('map', '837.4010.X098.A1.xml')


class Sink(object):
    def __init__(self):
        self.parts = []

    def write(self, t):
        self.parts.append(t)

    def getvalue(self):
        return ''.join(self.parts)


CONT = re.compile('([^&<>]|&amp;|&lt;|&gt;)*', re.S)
ATTR = re.compile("([^&<>']|&amp;|&lt;|&gt;|&apos;)*", re.S)


def xml_unescape(s):
    return s.replace('&lt;', '<').replace('&gt;', '>').replace('&apos;', "'").replace('&amp;', '&')


def h_escape_cont(t: str) -> bool:
    '''
    pre: len(t) <= MAXN
    post: _
    '''
    w = XMLWriter(Sink())
    out = w._escape_cont(t)
    return CONT.fullmatch(out) is not None and xml_unescape(out) == t


def h_escape_attr(t: str) -> bool:
    '''
    pre: len(t) <= MAXN
    post: _
    '''
    w = XMLWriter(Sink())
    out = w._escape_attr(t)
    return ATTR.fullmatch(out) is not None and xml_unescape(out) == t


# ------------------------------------------------------------------ loop bookkeeping on real map nodes
_PARAM = pyx12.params.params()
_MAP = pyx12.map_if.load_map_file(MAPFILE, _PARAM)


def _pick_nodes(m):
    """first, second and last segment node of every loop, capped: a representative set of (previous, next) candidates"""
    out = []
    for n in m.loop_segment_iterator():
        if n.is_loop():
            segs = [c for c in n.childIterator() if c.is_segment()]
            for c in (segs[:2] + segs[-1:]):
                if not [o for o in out if o is c] and len(c.children) > 0:
                    out.append(c)
    return out


_ALL = _pick_nodes(_MAP)
# the claim sub-tree under 2000B and under 2000C, the provider / subscriber levels, the envelope
_WANT = ('/ISA_LOOP/ISA', '/ISA_LOOP/GS_LOOP/GS', '/ISA_LOOP/GS_LOOP/ST_LOOP/ST', 'HEADER/BHT', '2000A/HL', '2010AA/NM1', '2010AB/NM1', '2000B/HL', '2000B/SBR',
         '2010BA/NM1', '2000B/2300/CLM', '2000B/2300/DTP', '2000B/2300/2310A/NM1', '2000B/2300/2400/LX', '2000B/2300/2400/SV1', '2000B/2300/2400/2420A/NM1',
         '2000C/HL', '2000C/PAT', '2010CA/NM1', '2000C/2300/CLM', '2000C/2300/2310A/NM1', '2000C/2300/2400/LX', '2000C/2300/2400/SV1', '/SE', '/GE', '/IEA',
         'AK2/AK2', 'AK3/AK3', 'AK3/AK4', 'AK2/AK5', '/AK1', '/AK9')
NODES = []
for _w in _WANT:
    for _n in _ALL:
        if _n.get_path().endswith(_w) and not [o for o in NODES if o is _n]:
            NODES.append(_n)
            break
NN = len(NODES)


def _plist(node):
    return [x for x in pop_to_parent_loop(node).get_path().split('/') if x != '']


def _data_for(node, hostile):
    """a data segment filling every used element of the node: simple -> 'V', composite -> 'V:W' (hostile value in the first used one)"""
    seg = Segment(node.id, '~', '*', ':')
    exp_ids = []
    first = True
    for ch in node.children:
        val = hostile if first else 'V'
        if ch.is_composite():
            subs = [c for c in ch.children][:2]
            seg.append(':'.join([val] + ['W'] * (len(subs) - 1)))
            if ch.usage != 'N':
                exp_ids.append(('comp', node.id))
                for c in subs:
                    exp_ids.append(('subele', c.id))
                first = False
        else:
            seg.append(val)
            if ch.usage != 'N':
                exp_ids.append(('ele', ch.id))
                first = False
    return seg, exp_ids


HOSTILE = ('V', 'A&B', '<x>', "O'Neil", 'a "q" b', ' lead', '&amp;')
TAG = re.compile(r"<(/?)(loop|seg|ele|comp|subele)(?: id='([^']*)')?>")


ILO = P('ilo', 0)
IHI = P('ihi', 1000)
VARYH = P('varyh', False)


def h_seg_transition(i: int, j: int, h: int) -> bool:
    '''
    pre: 0 <= i < NN and 0 <= j < NN and 0 <= h < 7
    pre: ILO <= i < IHI
    pre: (h == 0) if not VARYH else (j == (i + 1) % NN)
    post: _
    '''
    prev, nxt = NODES[i], NODES[j]
    pp, cp = _plist(prev), _plist(nxt)
    out = Sink()
    x = pyx12.x12xml_simple.x12xml_simple(out, None)
    # representation invariant after `prev`: stack spells x12simple + path(prev), last_path = path(prev)
    for lid in pp:
        x.writer.push('loop', {'id': lid})
    x.last_path = list(pp)
    mark = len(out.getvalue())
    seg, exp_ids = _data_for(nxt, HOSTILE[h])
    x.seg(nxt, seg)
    text = out.getvalue()[mark:]
    tags = [(m.group(1), m.group(2), m.group(3)) for m in TAG.finditer(text)]
    # reference: longest common prefix of the two map paths; re-open when the next segment starts (an instance of) a loop on the path
    m = 0
    while m < min(len(pp), len(cp)) and pp[m] == cp[m]:
        m += 1
    if nxt.is_first_seg_in_loop() and m == len(cp):
        m -= 1
    exp = [('/', 'loop', None)] * (len(pp) - m) + [('', 'loop', lid) for lid in cp[m:]] + [('', 'seg', nxt.id)]
    k = len(exp)
    head_ok = tags[:k] == exp
    body = [(t[1], t[2]) for t in tags[k:] if t[0] == '' and t[1] in ('ele', 'comp', 'subele')]
    stack_ok = x.writer.stack == ['x12simple'] + ['loop'] * len(cp) and x.last_path == cp
    # the emitted <seg> converts back to the source segment (not-used elements dropped)
    frag = text[text.find('<seg'):text.rfind('</seg>') + 6]
    back = pyx12.xmlx12_simple.get_segment(et.fromstring(frag))
    src = Segment(nxt.id, '~', '*', ':')
    for idx, ch in enumerate(nxt.children):
        src.append('' if ch.usage == 'N' else seg.get_value('%02i' % (idx + 1)))
    x.writer.stack = []
    return head_ok and body == exp_ids and stack_ok and back.format() == src.format()


DEEP = [n for n in NODES if len(_plist(n)) >= 5]
ND = len(DEEP)


def _expected_head(pp, cp, nxt):
    m = 0
    while m < min(len(pp), len(cp)) and pp[m] == cp[m]:
        m += 1
    if nxt.is_first_seg_in_loop() and m == len(cp):
        m -= 1
    return [('/', 'loop', None)] * (len(pp) - m) + [('', 'loop', lid) for lid in cp[m:]] + [('', 'seg', nxt.id)]


def h_seg_sequence(a: int, b: int) -> bool:
    '''
    pre: 0 <= a < ND and 0 <= b < ND
    pre: ILO <= a < IHI
    post: _
    '''
    # two consecutive calls on ONE renderer object (nodes from the deep part of the map, where loop ids repeat under different
    # parents): every call must render the difference of the two map paths - no state may survive except the documented last_path
    out = Sink()
    x = pyx12.x12xml_simple.x12xml_simple(out, None)
    seq = [DEEP[a], DEEP[b]]
    pp = _plist(seq[0])
    for lid in pp:
        x.writer.push('loop', {'id': lid})
    x.last_path = list(pp)
    ok = True
    for nxt in seq:
        cp = _plist(nxt)
        mark = len(out.getvalue())
        seg, exp_ids = _data_for(nxt, 'V')
        x.seg(nxt, seg)
        tags = [(m.group(1), m.group(2), m.group(3)) for m in TAG.finditer(out.getvalue()[mark:])]
        exp = _expected_head(pp, cp, nxt)
        ok = ok and tags[:len(exp)] == exp and x.writer.stack == ['x12simple'] + ['loop'] * len(cp)
        pp = cp
    x.writer.stack = []
    return ok


def conc_no_loop_id_prefix():
    """Side condition (concrete, every run): in no shipped map is a loop id a character-prefix of a sibling-or-ancestor-path loop id in a
    way that makes os.path.commonprefix (character-wise) differ from the list-wise common prefix for two paths of the map."""
    import glob
    import os
    import pyx12
    bad = []
    n = 0
    for f in sorted(glob.glob(os.path.join(os.path.dirname(pyx12.__file__), 'map', '*.xml'))):
        base = os.path.basename(f)
        if base in ('maps.xml', 'codes.xml', 'dataele.xml', 'comp_test.xml') or base.startswith('x12.control'):
            continue
        try:
            m = pyx12.map_if.load_map_file(base, _PARAM)
        except Exception:  # noqa - C16 reports maps that do not load
            continue
        paths = sorted(set('/'.join(_plist(s)) for s in m.loop_segment_iterator() if s.is_segment()))
        for a in paths:
            for b in paths:
                n += 1
                cp = os.path.commonprefix([a, b])
                la, lb = a.split('/'), b.split('/')
                k = 0
                while k < min(len(la), len(lb)) and la[k] == lb[k]:
                    k += 1
                if [x for x in cp.split('/') if x != ''] == la and k != len(la):
                    bad.append((base, a, b))
    return {'verdict': 'confirmed' if not bad else 'unknown', 'queries': 0, 'solver_time_s': 0.0,
            'sample': {'path_pairs': n, 'offending': bad[:3]}, 'detail': 'character-prefix ambiguity: %s' % bad[:3]}


# ------------------------------------------------------------------ pipeline round trip
RT_QUICK = P('rtdocs', 2)
RT_DOCS = ('834_lui_id', 'repeat_init_segment', '834_lui_id_5010', '835id', 'simple_837p', 'ordinal', 'simple_837i')
INJECT = (None, 'Slate Rock & Gravel', 'A<B>C', "O'Neil \"x\"")


def _inject(text, val):
    """put a hostile value into the first NM1*..*name or N1 name element"""
    if val is None:
        return text
    segs = docs.split_segments(text)
    for k, s in enumerate(segs):
        e = s.split('*')
        if e[0] == 'NM1' and len(e) > 3 and e[3] != '':
            e[3] = val
            segs[k] = '*'.join(e)
            break
        if e[0] == 'N1' and len(e) > 2 and e[2] != '':
            e[2] = val
            segs[k] = '*'.join(e)
            break
    return docs.join_segments(segs)


def _norm(segs):
    out = []
    for s in segs:
        e = s.rstrip('*').split('*')
        if e[0] == 'ISA':
            e[11] = e[16] = '?'
        out.append('*'.join(e))
    return out


def h_roundtrip(d: int, v: int) -> bool:
    '''
    pre: 0 <= d < RT_QUICK and 0 <= v < 4
    post: _
    '''
    text = _inject(docs.VALID[RT_DOCS[d]], INJECT[v])
    r = docs.validate(text, ack=False, xml=True)
    if r.exc is not None or r.xml is None:
        return False
    root = et.fromstring(r.xml)          # well-formed
    back = io.StringIO()
    pyx12.xmlx12_simple.convert(io.StringIO(r.xml), back)
    return _norm(docs.split_segments(back.getvalue())) == _norm(docs.split_segments(text)) and root.tag == 'x12simple'


def _ob(name, fn, tier, timeout, kind='ch', **params):
    return {'name': name, 'fn': fn, 'kind': kind, 'tier': tier, 'timeout': timeout, 'params': params}


OBLIGATIONS = [
    _ob('escape_cont_le3', 'h_escape_cont', 'quick', 600, maxn=3),
    _ob('escape_attr_le3', 'h_escape_attr', 'quick', 600, maxn=3),
    _ob('escape_cont_le4', 'h_escape_cont', 'thorough', 5400, maxn=4),
    _ob('escape_attr_le4', 'h_escape_attr', 'thorough', 5400, maxn=4),
    _ob('no_loop_id_prefix', 'conc_no_loop_id_prefix', 'quick', 600, kind='concrete'),
] + [_ob('seg_transition_837_prev%02d' % lo, 'h_seg_transition', 'quick', 1200, map='837.4010.X098.A1.xml', ilo=lo, ihi=lo + 4)
     for lo in range(0, 28, 4)] + [
] + [_ob('seg_sequence_837_first%02d' % lo, 'h_seg_sequence', 'quick', 1200, map='837.4010.X098.A1.xml', ilo=lo, ihi=lo + 5) for lo in range(0, 20, 5)] + [
    _ob('seg_transition_837_values', 'h_seg_transition', 'quick', 1200, map='837.4010.X098.A1.xml', varyh=True),
    _ob('seg_transition_997', 'h_seg_transition', 'quick', 900, map='997.4010.xml'),
    _ob('seg_transition_997_values', 'h_seg_transition', 'quick', 900, map='997.4010.xml', varyh=True),
    _ob('seg_transition_835', 'h_seg_transition', 'thorough', 2400, map='835.4010.X091.A1.xml'),
    _ob('roundtrip_small', 'h_roundtrip', 'quick', 2400, rtdocs=2),
    _ob('roundtrip_all', 'h_roundtrip', 'thorough', 3600, rtdocs=7),
]

LEVEL = 'other'
EXPLANATION = __doc__
BOUNDS = ('escaping: every unicode string of <= 3 (4 thorough) characters; transitions: every ordered pair of up to 26 representative segment nodes of 837.4010.X098.A1 '
          '(both parents of the claim sub-tree, envelope, header) and of 997.4010 (835 in thorough) x 7 hostile values; round trip: 7 real valid documents x 4 injected values.')
OUTSIDE = ('pairs of nodes outside the representative set; maps other than 837P 4010 / 997 / 835; values containing the output delimiters ~ * : (not representable); '
           'control characters (not XML 1.0); the expat parser is trusted.')
ASSUMPTIONS = [
    'writer-stack invariant: after a segment matched at node p the stack spells x12simple + loops(path(p)) and last_path = loops(path(p))',
    'side condition checked concretely every run: character-wise commonprefix never mistakes a loop id for a prefix of another on shipped map paths',
    'data segments fill every used element with V (composites V:W), first used element carries the hostile value',
]
FUNCTIONS = ['pyx12/xmlwriter.py:XMLWriter._escape_cont', 'pyx12/xmlwriter.py:XMLWriter._escape_attr', 'pyx12/xmlwriter.py:XMLWriter.push',
             'pyx12/xmlwriter.py:XMLWriter.pop', 'pyx12/xmlwriter.py:XMLWriter.elem', 'pyx12/x12xml_simple.py:x12xml_simple.seg',
             'pyx12/x12xml.py:x12xml._get_path_match_idx', 'pyx12/xmlx12_simple.py:get_segment', 'pyx12/xmlx12_simple.py:convert']
