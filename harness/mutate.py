"""Structural mutations of a document given as a list of segment strings (shared by C03, C07, C12, C18)."""
KINDS = ('delete', 'duplicate', 'swap', 'truncate', 'retag', 'orphan_trailer', 'bad_count', 'overlong', 'empty_elements', 'blank_segment',
         'too_many_components', 'lowercase_id', 'long_percent_value', 'format_braces_value', 'trailing_separator', 'blank_elements')


def mutate(segs, kind, i):
    """Apply mutation `kind` at position i (0-based) to a copy of segs."""
    s = list(segs)
    n = len(s)
    i = i % n
    if kind == 'delete':
        del s[i]
    elif kind == 'duplicate':
        s.insert(i, s[i])
    elif kind == 'swap':
        j = (i + 1) % n
        s[i], s[j] = s[j], s[i]
    elif kind == 'truncate':
        s = s[:max(i, 1)]
    elif kind == 'retag':
        e = s[i].split('*')
        e[0] = 'ZZZ'
        s[i] = '*'.join(e)
    elif kind == 'orphan_trailer':
        s.insert(i + 1, ('SE*1*0009', 'GE*1*99', 'IEA*1*000000099')[i % 3])
    elif kind == 'bad_count':
        e = s[i].split('*')
        if len(e) > 1:
            e[1] = 'X'
        s[i] = '*'.join(e)
    elif kind == 'overlong':
        s[i] = s[i] + '*A' * 110
    elif kind == 'empty_elements':
        s[i] = s[i].split('*')[0]
    elif kind == 'blank_segment':
        s.insert(i, '   ')
    elif kind == 'too_many_components':
        e = s[i].split('*')
        if len(e) > 1 and e[0] != 'ISA':
            e[1] = e[1] + ':A:B:C:D:E:F:G:H:I'
        s[i] = '*'.join(e)
    elif kind == 'lowercase_id':
        e = s[i].split('*')
        e[0] = e[0].lower()
        s[i] = '*'.join(e)
    elif kind in ('long_percent_value', 'format_braces_value'):
        # a value that is too long for any element AND looks like a format directive
        e = s[i].split('*')
        if len(e) > 1 and e[0] != 'ISA':
            e[-1] = ('100% EQUITY %s %(x)d ' if kind == 'long_percent_value' else '{0} {} {x!r} ') * 8
        s[i] = '*'.join(e)
    elif kind == 'blank_elements':
        e = s[i].split('*')
        if e[0] != 'ISA':
            s[i] = '*'.join([e[0]] + [''] * (len(e) - 1))
    elif kind == 'trailing_separator':
        s[i] = s[i] + '*'
    else:
        raise ValueError(kind)
    return s


def reencode(segs, seg_t, ele_t, sub_t, eol=''):
    """Re-encode a document written with ~ * : using another delimiter triple and line-break convention."""
    out = []
    for seg in segs:
        e = seg.split('*')
        if e[0] == 'ISA' and len(e) == 17:
            e[16] = sub_t
            out.append(ele_t.join(e))
        else:
            out.append(ele_t.join([x.replace(':', sub_t) for x in e]))
    return ''.join(x + seg_t + eol for x in out)
