"""Shared stubs for building a REAL pyx12.error_handler.err_handler tree through its public API (C05, C06, C19)."""
import pyx12.error_handler
from pyx12.segment import Segment


class Src(object):
    """The reader as the error handler sees it."""
    def __init__(self):
        self.isa_id, self.gs_id, self.st_id = None, None, None
        self.cur_line = 0
        self.st_count = 0

    def get_isa_id(self):
        return self.isa_id

    def get_gs_id(self):
        return self.gs_id

    def get_st_id(self):
        return self.st_id

    def get_cur_line(self):
        return self.cur_line

    def get_seg_count(self):
        return 0

    def get_term(self):
        return ('~', '*', ':', '\n', '^')


class _Par(object):
    def __init__(self, comp, seq=1):
        self._c = comp
        self.seq = seq

    def is_composite(self):
        return self._c


class MapNode(object):
    """What add_seg / add_ele read from a map node."""
    def __init__(self, name='Node', pos=10, data_ele='127', seq=1, in_composite=False, comp_seq=1):
        self.name = name
        self.pos = pos
        self.data_ele = data_ele
        self.seq = seq
        self.parent = _Par(in_composite, comp_seq)


def isa_segment(ctl='000000001', sender='SENDER         ', receiver='RECEIVER       ', icvn='00401', ta1='0'):
    s = Segment('ISA', '~', '*', ':')
    for f in ['00', '          ', '00', '          ', 'ZZ', sender, 'ZZ', receiver, '040608', '1333', 'U', icvn, ctl, ta1, 'P', ':']:
        s.append(f)
    return s


def gs_segment(ctl='17', fic='HC', sender='SENDERGS', receiver='RECEIVERGS', vriic='004010X098A1'):
    s = Segment('GS', '~', '*', ':')
    for f in [fic, sender, receiver, '20040608', '1333', ctl, 'X', vriic]:
        s.append(f)
    return s


def st_segment(ctl='0001', tsid='837', vriic=None):
    s = Segment('ST', '~', '*', ':')
    s.append(tsid)
    s.append(ctl)
    if vriic:
        s.append(vriic)
    return s


def seg_of(seg_id, *vals):
    s = Segment(seg_id, '~', '*', ':')
    for v in vals:
        s.append(v)
    return s


# ------------------------------------------------------------------ driving the error handler the way x12n_document does
class SetShape(object):
    def __init__(self, ctl, st_err=None, seg_err=False, ele_err=False, st_ele_err=False, se_ele_err=False, closed=True,
                 bad_value='ZZ', n_body=2):
        self.ctl, self.st_err, self.seg_err, self.ele_err = ctl, st_err, seg_err, ele_err
        self.st_ele_err, self.se_ele_err, self.closed, self.bad_value, self.n_body = st_ele_err, se_ele_err, closed, bad_value, n_body

    def any_error(self):
        return bool(self.st_err or self.seg_err or self.ele_err or self.st_ele_err or self.se_ele_err or not self.closed)


class GroupShape(object):
    def __init__(self, ctl, sets, ge01=None, gs_err=None, gs_ele_err=False, closed=True, fic='HC', vriic='004010X098A1', ge_ele_err=False):
        self.ctl, self.sets, self.ge01, self.gs_err, self.gs_ele_err, self.closed = ctl, sets, ge01, gs_err, gs_ele_err, closed
        self.ge_ele_err = ge_ele_err and closed
        self.fic, self.vriic = fic, vriic

    def any_error(self):
        return bool(self.gs_err or self.gs_ele_err or self.ge_ele_err or not self.closed or any(s.any_error() for s in self.sets))


def build_tree(groups, icvn='00401', st_vriic=None, sender='SENDER         ', receiver='RECEIVER       ', ta1='0', more=()):
    """Drive the REAL err_handler through the call sequence of x12n_document for the given shape; returns (errh, src).
    `more`: further interchanges, each a list of groups."""
    errh = pyx12.error_handler.err_handler()
    src = Src()
    line = 0
    for k, grps in enumerate([groups] + list(more)):
        line = _one_interchange(errh, src, grps, '00000000%d' % (k + 1), line, icvn, st_vriic, sender, receiver, ta1)
    return errh, src


def _one_interchange(errh, src, groups, isa_ctl, line, icvn, st_vriic, sender, receiver, ta1):
    line += 1
    src.isa_id, src.cur_line = isa_ctl, line
    errh.add_isa_loop(isa_segment(ctl=isa_ctl, icvn=icvn, sender=sender, receiver=receiver, ta1=ta1), src)
    for g in groups:
        line += 1
        src.gs_id, src.cur_line, src.st_count = g.ctl, line, 0
        errh.add_gs_loop(gs_segment(ctl=g.ctl, fic=g.fic, vriic=g.vriic), src)
        if g.gs_err:
            errh.gs_error(g.gs_err, 'GS error %s' % g.gs_err)
        if g.gs_ele_err:
            errh.add_ele(MapNode('GS04 date', data_ele='373', seq=4))
            errh.ele_error('8', 'Data element "Date" (GS04) contains an invalid date', 'X')
        for s in g.sets:
            line += 1
            src.st_id, src.cur_line = s.ctl, line
            src.st_count += 1
            errh.add_st_loop(st_segment(ctl=s.ctl, vriic=st_vriic), src)
            if s.st_ele_err:
                errh.add_ele(MapNode('ST02 control', data_ele='329', seq=2))
                errh.ele_error('5', 'Data element "Transaction Set Control Number" (ST02) is too long', s.ctl)
            seg_count = 1
            for b in range(s.n_body):
                line += 1
                seg_count += 1
                src.cur_line = line
                errh.add_seg(MapNode('Body %d' % b, pos=20 + b), seg_of('NM1', '85', 'X'), seg_count, line, None)
                if b == 0 and s.seg_err:
                    errh.seg_error('8', 'Segment has data element errors', None)
                if b == 1 and s.ele_err:
                    errh.add_ele(MapNode('NM102', data_ele='1065', seq=2))
                    errh.ele_error('7', '(%s) is not a valid code' % s.bad_value, s.bad_value)
            if s.closed:
                line += 1
                src.cur_line = line
                if s.st_err:
                    errh.st_error(s.st_err, 'ST level error %s' % s.st_err)
                errh.close_st_loop(None, seg_of('SE', '%d' % (seg_count + 1), s.ctl), src)
                if s.se_ele_err:
                    errh.add_ele(MapNode('SE01 count', data_ele='96', seq=1))
                    errh.ele_error('6', 'Data element "Number of Included Segments" (SE01) is invalid', 'X')
            else:
                errh.st_error('2', 'Mandatory segment "Transaction Set Trailer" (SE=%s) missing' % s.ctl)
        if g.closed:
            line += 1
            src.cur_line = line
            ge01 = g.ge01 if g.ge01 is not None else '%d' % len(g.sets)
            errh.close_gs_loop(None, seg_of('GE', ge01, g.ctl), src)
            if g.ge_ele_err:
                errh.add_ele(MapNode('GE02 control', data_ele='28', seq=2))
                errh.ele_error('6', 'Data element "Group Control Number" (GE02) is invalid', 'X')
        else:
            errh.gs_error('3', 'Mandatory segment "Functional Group Trailer" (GE=%s) missing' % g.ctl)
    line += 1
    src.cur_line = line
    errh.close_isa_loop(None, seg_of('IEA', '%d' % len(groups), isa_ctl), src)
    return line


class Sink(object):
    def __init__(self):
        self.parts = []

    def write(self, t):
        self.parts.append(t)

    def getvalue(self):
        return ''.join(self.parts)


def ack_segments(text):
    """[[seg id, e1, e2, ...], ...] of an acknowledgement written with ~ * :"""
    out = []
    for line in text.split('~'):
        line = line.strip('\r\n')
        if line != '':
            out.append(line.split('*'))
    return out
