"""Shared stubs for building a REAL pyx12.error_handler.err_handler tree through its public API (C05, C06, C19)."""
import pyx12.error_handler
from pyx12.segment import Segment


class Src(object):
    """The reader as the error handler sees it."""
    def __init__(self):
        self.isa_id, self.gs_id, self.st_id = None, None, None
        self.cur_line = 0
        self.st_count = 0

    def get_isa_id(self):
        return self.isa_id

    def get_gs_id(self):
        return self.gs_id

    def get_st_id(self):
        return self.st_id

    def get_cur_line(self):
        return self.cur_line

    def get_seg_count(self):
        return 0

    def get_term(self):
        return ('~', '*', ':', '\n', '^')


class _Par(object):
    def __init__(self, comp, seq=1):
        self._c = comp
        self.seq = seq

    def is_composite(self):
        return self._c


class MapNode(object):
    """What add_seg / add_ele read from a map node."""
    def __init__(self, name='Node', pos=10, data_ele='127', seq=1, in_composite=False, comp_seq=1):
        self.name = name
        self.pos = pos
        self.data_ele = data_ele
        self.seq = seq
        self.parent = _Par(in_composite, comp_seq)


def isa_segment(ctl='000000001', sender='SENDER         ', receiver='RECEIVER       ', icvn='00401', ta1='0'):
    s = Segment('ISA', '~', '*', ':')
    for f in ['00', '          ', '00', '          ', 'ZZ', sender, 'ZZ', receiver, '040608', '1333', 'U', icvn, ctl, ta1, 'P', ':']:
        s.append(f)
    return s


def gs_segment(ctl='17', fic='HC', sender='SENDERGS', receiver='RECEIVERGS', vriic='004010X098A1'):
    s = Segment('GS', '~', '*', ':')
    for f in [fic, sender, receiver, '20040608', '1333', ctl, 'X', vriic]:
        s.append(f)
    return s


def st_segment(ctl='0001', tsid='837', vriic=None):
    s = Segment('ST', '~', '*', ':')
    s.append(tsid)
    s.append(ctl)
    if vriic:
        s.append(vriic)
    return s


def seg_of(seg_id, *vals):
    s = Segment(seg_id, '~', '*', ':')
    for v in vals:
        s.append(v)
    return s
