"""
C12  Validation results do not depend on delimiters or line layout.

Real code executed symbolically (CrossHair+z3): the whole x12n_document pipeline (text layer, reader, walker, map nodes, error handler,
997/999 visitor) on one document re-encoded with a delimiter triple and a line-break convention that are SYMBOLIC choices; the
reference result (verdict, acknowledgement text) is that of the ~ * : encoding without line breaks, computed once natively.
The text layer's own independence from arbitrary symbolic delimiter characters and chunking is C01's obligation (raw_delims_*,
raw_linebreak_*); this property adds that nothing downstream compares against a literal delimiter.
Documents: a valid one and faulty variants (symbolic choice of the mutation position) so that errors, positions and echoed values
are part of what must not change.
"""
from harness.common import P, KNOWN
from harness import docs
from harness.mutate import mutate, reencode

docs.freeze_clock()
import pyx12.rawx12file
pyx12.rawx12file.DEFAULT_BUFSIZE = P('bs', 7)     # small read buffer: line breaks and terminators meet refill boundaries
DOC = P('doc', '997')
MUT = P('mut', None)
_BASE = docs.split_segments(docs.VALID[DOC])
NSEG = len(_BASE)
SEG_T = ('~', '!', '\x1c', '|')
ELE_T = ('*', '\x1d', '^', '|', '+')
SUB_T = (':', '>', '\\', '<')
EOLS = ('', '\n', '\r\n', '\r', '\n\n')
POS = P('pos', None)
NS, NE, NC, NL = P('ns', 3), P('ne', 3), P('nc', 3), P('nl', 3)


def _variant(i):
    return mutate(_BASE, MUT, i) if MUT else list(_BASE)


_REF = {}
for _i in (range(NSEG) if MUT else [0]):
    _r = docs.validate(docs.join_segments(_variant(_i), eol=''))
    _REF[_i] = (_r.verdict, _r.ack, type(_r.exc).__name__)


def _norm_ack(text):
    """Listed finding c12-composite-value-echo: the copy of a composite given where a simple element is declared (AK4/IK4 code 6) is
    printed with the SOURCE component separator; only that optional value element is ignored, and only while the finding is listed."""
    if text is None or not KNOWN('c12-composite-value-echo'):
        return text
    out = []
    for line in text.split('\n'):
        e = line.rstrip('~').split('*')
        if e[0] in ('AK4', 'IK4') and len(e) >= 4 and e[3] == '6':
            line = '*'.join(e[:4]) + '~'
        out.append(line)
    return '\n'.join(out)


def h_delims(a: int, b: int, c: int, n: int, i: int) -> bool:
    '''
    pre: 0 <= a < NS and 0 <= b < NE and 0 <= c < NC and 0 <= n < NL
    pre: 0 <= i < (NSEG if MUT else 1)
    pre: POS is None or i in POS
    post: _
    '''
    st, et, ct, eol = SEG_T[a], ELE_T[b], SUB_T[c], EOLS[n]
    if len(set([st, et, ct])) < 3:
        return True
    segs = _variant(i)
    if any([(d in s.replace('*', '').replace(':', '')) for s in segs[1:] for d in (st, et, ct)]):
        return True      # the new delimiters must be absent from the data
    if any([(d in f) for f in segs[0].split('*')[1:16] for d in (st, et, ct)]):
        return True      # ... including the ISA fields (in 00501 ISA11 holds the repetition separator, e.g. '^')
    r = docs.validate(reencode(segs, st, et, ct, eol))
    ref = _REF[i]
    return (r.verdict, _norm_ack(r.ack), type(r.exc).__name__) == (ref[0], _norm_ack(ref[1]), ref[2])


def _ob(name, fn, tier, timeout, kind='ch', **params):
    return {'name': name, 'fn': fn, 'kind': kind, 'tier': tier, 'timeout': timeout, 'params': params}


OBLIGATIONS = [
    _ob('valid_997', 'h_delims', 'quick', 2400, doc='997', ns=2, ne=3, nc=2, nl=3),
    _ob('valid_999', 'h_delims', 'thorough', 2400, doc='999'),
    _ob('valid_834', 'h_delims', 'thorough', 3600, doc='834_lui_id', ns=2, ne=3, nc=2, nl=3),
    _ob('valid_997_all_delims', 'h_delims', 'thorough', 7200, doc='997', ns=4, ne=5, nc=4, nl=2),
]
for m in ('trailing_separator', 'bad_count', 'too_many_components', 'retag', 'delete'):
    OBLIGATIONS.append(_ob('faulty_ris_%s' % m, 'h_delims', 'quick' if m in ('trailing_separator', 'bad_count', 'too_many_components') else 'thorough', 3600,
                           doc='repeat_init_segment', mut=m, ns=1, ne=2, nc=2, nl=2, pos=[3, 7, 11, 15]))
    OBLIGATIONS.append(_ob('faulty_997_%s' % m, 'h_delims', 'thorough', 3600, doc='997', mut=m, ns=2, ne=2, nc=2, nl=2, pos=[1, 4, 6, 9]))
    OBLIGATIONS.append(_ob('faulty_997_%s_everywhere' % m, 'h_delims', 'thorough', 3600, doc='997', mut=m, ns=2, ne=2, nc=2, nl=2))
    if m in ('trailing_separator', 'bad_count', 'too_many_components'):
        OBLIGATIONS.append(_ob('faulty_834_%s' % m, 'h_delims', 'thorough', 7200, doc='834_lui_id', mut=m, ns=1, ne=2, nc=2, nl=2, pos=[3, 8, 13, 18]))

LEVEL = 'other'
EXPLANATION = __doc__
BOUNDS = ('quick: the 12-segment 997 document valid (2x3x2 delimiter triples x 3 line-break conventions) and the 19-segment repeat_init_segment document (acknowledgement generated) with three kinds of single fault at four positions (five kinds at every position in thorough) '
          '(2x2x2 triples x 2 conventions, including a control character as element separator); thorough: 999, 834, all 4x5x4 triples.')
OUTSIDE = ('documents other than 997 / 999 / 834; delimiter characters outside the tables (arbitrary symbolic delimiters are covered for the text layer by C01); HTML and XML output '
           '(delimiters are legitimately shown there).')
ASSUMPTIONS = [
    'reference = the same document written with ~ * : and no line breaks, validated natively at import',
    'the new delimiters are absent from the data (property precondition) - combinations that violate it are skipped',
    'clock and RNG frozen',
]
FUNCTIONS = ['pyx12/x12n_document.py:x12n_document', 'pyx12/rawx12file.py:RawX12File.*', 'pyx12/x12file.py:X12Reader.*', 'pyx12/map_if.py:segment_if.is_valid',
             'pyx12/map_if.py:element_if.is_valid', 'pyx12/error_997.py:error_997_visitor.*']
