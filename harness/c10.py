"""
C10  Tree editing API obeys its read/write/insert/delete/copy laws.

Real code executed symbolically (CrossHair+z3): X12DataNode._get_insert_idx / _cleanup / _select / exists / count / first / select,
X12LoopDataNode.get_value / set_value / add_segment / add_loop / add_node / delete_segment / delete_node / copy / iterate_segments,
X12SegmentDataNode.get_value / set_value / copy, and Segment.set / get / copy underneath.
 * insertion index: a loop node whose children carry SYMBOLIC map positions (non-decreasing - the representation invariant of a
   reader-built loop, whose first child is the loop-head segment at the smallest position) and SYMBOLIC deleted-marks; after
   _get_insert_idx + insert (exactly what add_segment / add_loop / add_node do) the live children are still ordered by position and the
   new node sits after every live child of the same or an earlier position and before every later one;
 * laws on REAL trees: the 2300 (claim) trees of the repository's own 837 documents, rebuilt by the real reader at import; the
   operation, its path and its operand are symbolic choices, written values are symbolic strings.
"""
import io
import re
from harness.common import P
from harness import docs
import pyx12.x12context
import pyx12.segment
import pyx12.params
import pyx12.error_handler
from pyx12.x12context import X12LoopDataNode, X12SegmentDataNode
from pyx12.errors import X12PathError

NCH = P('nch', 3)
_PARAM = pyx12.params.params()


# ------------------------------------------------------------------ insertion index lemma (symbolic integers)
class _MapStub(object):
    def __init__(self, pos, nid='X'):
        self.pos = pos
        self.id = nid
        self.parent = None

    def is_loop(self):
        return False


class _Child(object):
    def __init__(self, pos, deleted, nid='X'):
        self.x12_map_node = None if deleted else _MapStub(pos, nid)
        self.type = None if deleted else 'seg'


def h_insert_idx(p1: int, p2: int, p3: int, p4: int, d2: bool, d3: bool, d4: bool, new: int, b2: bool, b3: bool, b4: bool, bn: bool) -> bool:
    '''
    pre: 0 <= p1 <= p2 <= p3 <= p4 <= 6
    pre: p1 <= new <= 7
    post: _
    '''
    # children 1..NCH with symbolic positions; child 1 (the loop head) is never deleted; others may be marked deleted (type None)
    # node ids are symbolic too (2310A / 2310B ... share one position in the maps): the order among equal positions is arrival order
    kids = [_Child(p1, False, 'B'), _Child(p2, d2, 'B' if b2 else 'A'), _Child(p3, d3, 'B' if b3 else 'A'), _Child(p4, d4, 'B' if b4 else 'A')][:NCH]
    loop = X12LoopDataNode(_MapStub(0, 'L'))
    loop.children = list(kids)
    node = _Child(new, False, 'B' if bn else 'A')
    idx = loop._get_insert_idx(node.x12_map_node)
    loop.children.insert(idx, node)
    live = [c for c in loop.children if c.type is not None]
    k = [i for i, c in enumerate(live) if c is node]
    if len(k) != 1:
        return False
    k = k[0]
    before_ok = all([c.x12_map_node.pos <= new for c in live[:k]])
    after_ok = all([c.x12_map_node.pos > new for c in live[k + 1:]])
    return before_ok and after_ok and len(live) == len([c for c in kids if c.type is not None]) + 1


# ------------------------------------------------------------------ laws on real trees
def _trees(doc_name, loop_id):
    src = io.StringIO(docs.VALID[doc_name])
    rd = pyx12.x12context.X12ContextReader(_PARAM, pyx12.error_handler.errh_null(), src)
    return [n for n in rd.iter_segments(loop_id) if n.id == loop_id]


_BASE = _trees('simple_837p', '2300') + _trees('ordinal', '2300')[:1]
NT = len(_BASE)


def ser(tree):
    return [x['segment'].format() for x in tree.iterate_segments()]


def _clone(node, parent=None):
    if node.type == 'loop':
        n = X12LoopDataNode(node.x12_map_node, end_loops=list(node.end_loops), parent=parent)
        n.children = [_clone(c, n) for c in node.children]
        return n
    n = X12SegmentDataNode(node.x12_map_node, pyx12.segment.Segment(node.seg_data.format(), '~', '*', ':'), parent)
    n.seg_count, n.cur_line_number = node.seg_count, node.cur_line_number
    return n


def _fresh(t):
    """an independent working copy of base tree t, made by the harness (NOT by the copy() under test)"""
    return _clone(_BASE[t], _BASE[t].parent)


GET_PATHS = ('CLM01', 'CLM02', 'CLM05-1', 'CLM05-3', 'DTP[472]03', 'DTP[435]03', 'REF[D9]02', 'HI01-2', '2400/SV101-2', '2400/SV102',
             '2400/DTP[472]03', '2310B/NM103', '2310B/PRV03', '2400/LX01', 'HI02-1', 'AMT[F5]02', 'ZZZ01', '2999/NM101', 'CLM99')
NP = len(GET_PATHS)
VAL = re.compile('[A-Z0-9 .<]{0,3}')


def h_set_get(t: int, p: int, v: str) -> bool:
    '''
    pre: 0 <= t < NT and 0 <= p < NP
    pre: VAL.fullmatch(v) is not None
    post: _
    '''
    # set then get returns the value; nothing else in the serialisation changes; an unknown path is refused with X12PathError
    tree = _fresh(t)
    before = ser(tree)
    path = GET_PATHS[p]
    present = tree.exists(path.rstrip('0123456789-') if False else re.sub(r'[0-9]{2}(-[0-9]+)?$', '', path))
    try:
        tree.set_value(path, v)
    except X12PathError:
        return (not present) and ser(tree) == before
    if not present:
        return False
    got = tree.get_value(path)
    after = ser(tree)
    changed = [i for i in range(len(before)) if before[i] != after[i]]
    return got == v and len(after) == len(before) and len(changed) <= 1


QUERY_PATHS = ('CLM', 'DTP', 'DTP[472]', 'REF', 'REF[D9]', 'HI', '2400', '2400/SV1', '2400/DTP', '2310B', '2310B/NM1', '2310A', '2400/2420A',
               'ZZZ', '2999', '2400/ZZZ', 'AMT', 'NTE', '2300', '2330A/NM1', '2320')
NQ = len(QUERY_PATHS)


def h_query(t: int, q: int) -> bool:
    '''
    pre: 0 <= t < NT and 0 <= q < NQ
    post: _
    '''
    tree = _BASE[t]
    path = QUERY_PATHS[q]
    sel = list(tree.select(path))
    first = tree.first(path)
    cnt = tree.count(path)
    ex = tree.exists(path)
    return (ex == (cnt > 0) and (first is not None) == ex and cnt == len(sel) and (first is None or first is sel[0]) and
            ser(tree) == ser(_BASE[t]))


def h_delete(t: int, q: int) -> bool:
    '''
    pre: 0 <= t < NT and 0 <= q < NQ
    post: _
    '''
    # delete_node removes exactly the first match (with its sub-tree); later queries no longer see it
    tree = _fresh(t)
    path = QUERY_PATHS[q]
    before = ser(tree)
    cnt = tree.count(path)
    first = tree.first(path)
    removed = [] if first is None else ([first.seg_data.format()] if first.type == 'seg' else ser(first))
    ok = tree.delete_node(path)
    after = ser(tree)
    if cnt == 0:
        return ok is False and after == before
    # the removed block is contiguous in the serialisation
    k = 0
    while k < len(before) and k < len(after) and before[k] == after[k]:
        k += 1
    return (ok is True and tree.count(path) == cnt - 1 and before[:k] + before[k + len(removed):] == after and
            before[k:k + len(removed)] == removed)


ADD_SEGS = ('HCP*00*7.11~', 'NTE*ADD*NOTE~', 'REF*F8*123~', 'DTP*454*D8*20040101~', 'CR1*LB*10~', 'AMT*F5*8.5~', 'K3*X~', 'PWK*OZ*BM~', 'ZZ*1~')
NA = len(ADD_SEGS)


def _positions_ordered(loop):
    pos = [c.x12_map_node.pos for c in loop.children if c.type is not None]
    return all([pos[i] <= pos[i + 1] for i in range(len(pos) - 1)])


DELS = (None, 'HI', 'CN1', '2400', 'REF')


def h_add_segment(t: int, a: int, del_first: int) -> bool:
    '''
    pre: 0 <= t < NT and 0 <= a < NA and 0 <= del_first < 5
    post: _
    '''
    # optional delete_node first (marks a node deleted), then add_segment: placed where the map orders it, everything else untouched
    tree = _fresh(t)
    if DELS[del_first] is not None:
        tree.delete_node(DELS[del_first])
    before = ser(tree)
    seg = ADD_SEGS[a]
    try:
        node = tree.add_segment(seg)
    except X12PathError:
        return ser(tree) == before and tree.x12_map_node.get_child_seg_node(pyx12.segment.Segment(seg, '~', '*', ':')) is None
    after = ser(tree)
    k = [i for i in range(len(after)) if after[i] == seg]
    rest = [x for i, x in enumerate(after) if not (after[i] == seg and i == k[-1])] if k else after
    return len(k) >= 1 and rest == before and _positions_ordered(tree) and node.parent is tree


def h_add_loop(t: int, del_first: bool, which: int) -> bool:
    '''
    pre: 0 <= t < NT and 0 <= which < 3
    post: _
    '''
    tree = _fresh(t)
    if del_first:
        tree.delete_node('2400')
    before = ser(tree)
    seg = ('LX*9~', 'NM1*DN*1*REFERRER*JANE~', 'SBR*S*01~')[which]
    try:
        loop = tree.add_loop(seg)
    except X12PathError:
        return ser(tree) == before and tree.x12_map_node.get_child_loop_node(pyx12.segment.Segment(seg, '~', '*', ':')) is None
    after = ser(tree)
    rest = [x for x in after if x != seg]
    return rest == before and _positions_ordered(tree) and loop.parent is tree and after.count(seg) == 1


COPY_EDITS = ('CLM02', 'CLM05-1', 'HI01-2', '2400/SV101-2', '2400/SV102', 'DTP[472]03')
NC = len(COPY_EDITS)


def h_copy(t: int, e: int, v: str, edit_original: bool) -> bool:
    '''
    pre: 0 <= t < NT and 0 <= e < NC
    pre: VAL.fullmatch(v) is not None and len(v) >= 1
    post: _
    '''
    # a copy shares no mutable data with its original: editing either leaves the other's serialisation unchanged
    tree = _fresh(t)
    before = ser(tree)
    cp = tree.copy()
    if ser(cp) != before:
        return False
    path = COPY_EDITS[e]
    if not tree.exists(re.sub(r'[0-9]{2}(-[0-9]+)?$', '', path)):
        return True
    (cp if not edit_original else tree).set_value(path, v + 'Q')
    other = tree if not edit_original else cp
    return ser(other) == before


def _ob(name, fn, tier, timeout, kind='ch', **params):
    return {'name': name, 'fn': fn, 'kind': kind, 'tier': tier, 'timeout': timeout, 'params': params}


OBLIGATIONS = [
    _ob('insert_idx_2', 'h_insert_idx', 'quick', 600, nch=2),
    _ob('insert_idx_3', 'h_insert_idx', 'quick', 900, nch=3),
    _ob('insert_idx_4', 'h_insert_idx', 'thorough', 1800, nch=4),
    _ob('set_get', 'h_set_get', 'quick', 1800),
    _ob('query', 'h_query', 'quick', 900),
    _ob('delete', 'h_delete', 'quick', 1800),
    _ob('add_segment', 'h_add_segment', 'quick', 2400),
    _ob('add_loop', 'h_add_loop', 'quick', 900),
    _ob('copy', 'h_copy', 'quick', 1800),
]

LEVEL = 'other'
EXPLANATION = __doc__
BOUNDS = ('insertion index: 2..3 (4 thorough) children with any non-decreasing positions in 0..6 and any deleted-marks (head never deleted), new position any value >= the '
          'head position; laws: %d real claim trees x a table of %d element paths / %d node paths / %d candidate segments / 3 candidate loops (valid and invalid), written '
          'value any string of <= 3 characters over [A-Z0-9 .<], optional preceding delete_node.' % (NT, NP, NQ, NA))
OUTSIDE = ('trees other than the 2300 loops of the two 837 test documents; sequences of more than two operations (each law is checked from a freshly read tree, '
           'optionally after one delete); add_node with hand-built nodes; paths outside the tables.')
ASSUMPTIONS = [
    'representation invariant of a reader-built loop: children positions non-decreasing, first child = loop-head segment (documented as undeletable)',
    'working copies are made by a harness-side structural clone (segments re-parsed from their text), never by the copy() under test',
]
FUNCTIONS = ['pyx12/x12context.py:X12DataNode._get_insert_idx', 'pyx12/x12context.py:X12DataNode._select', 'pyx12/x12context.py:X12LoopDataNode.set_value',
             'pyx12/x12context.py:X12LoopDataNode.get_value', 'pyx12/x12context.py:X12LoopDataNode.add_segment', 'pyx12/x12context.py:X12LoopDataNode.add_loop',
             'pyx12/x12context.py:X12LoopDataNode.delete_node', 'pyx12/x12context.py:X12LoopDataNode.copy', 'pyx12/segment.py:Segment.set']
