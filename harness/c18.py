"""
C18  Results are a function of the document and parameters alone.

Inductive argument over processing histories: let G be the mutable process-level state of pyx12 - module globals, class attributes and
function default arguments that hold containers (X12LoopDataNode(end_loops=[]), X12SegmentDataNode(start_loops=[], end_loops=[]),
element_if.is_valid(type_list=[]), XMLWriter.push(attrs={}) ...).
 * state_preserved: for every processing step of the catalogue (validate a document - valid or mutated at a symbolic position - with
   the sinks chosen symbolically; iterate it with the context reader for a symbolically chosen loop and edit the tree), G after the
   step equals G before it.  If no step changes G, no history can influence a later step through G.
 * history: processing A and then B (documents and parameter sets chosen symbolically, parameter objects reused or fresh) gives for
   B exactly the verdict / acknowledgement / XML / HTML body that B gave when it was processed first in the process (computed at
   import) - this also catches state kept in objects the snapshot does not know, e.g. a cache added later.
 * hash_seed: side condition (concrete): the same documents processed in fresh interpreters under different PYTHONHASHSEED values give
   identical output.
Real code executed symbolically (CrossHair+z3): the whole pipeline and the context reader.
"""
import io
import os
import re
import subprocess
import sys
import types
from harness.common import P
from harness import docs
from harness.mutate import mutate
import pyx12.params
import pyx12.x12context
import pyx12.error_handler

docs.freeze_clock()


def snapshot():
    """repr of every container-valued module global / class attribute / function default of the pyx12 package (tests excluded).
    Instrumentation only (all values concrete): taken outside CrossHair's tracer."""
    from crosshair.tracers import NoTracing, is_tracing
    if is_tracing():
        with NoTracing():
            return _snapshot()
    return _snapshot()


def _snapshot():
    out = {}
    for mname, mod in sorted(sys.modules.items()):
        if not (mname == 'pyx12' or mname.startswith('pyx12.')) or mname.startswith('pyx12.test') or mod is None:
            continue
        for k, v in sorted(vars(mod).items()):
            if k.startswith('__'):
                continue
            if isinstance(v, (list, dict, set)):
                out['%s.%s' % (mname, k)] = repr(v)
            elif isinstance(v, types.FunctionType) and v.__module__ == mname:
                out['%s.%s.__defaults__' % (mname, k)] = repr((v.__defaults__, v.__kwdefaults__))
            elif isinstance(v, type) and v.__module__ == mname:
                for ck, cv in sorted(vars(v).items()):
                    if ck.startswith('__') and ck != '__init__':
                        continue
                    if isinstance(cv, (list, dict, set)):
                        out['%s.%s.%s' % (mname, k, ck)] = repr(cv)
                    elif isinstance(cv, types.FunctionType):
                        out['%s.%s.%s.__defaults__' % (mname, k, ck)] = repr((cv.__defaults__, cv.__kwdefaults__))
    return out


DOCS = ('997', '834_lui_id', '999', 'repeat_init_segment')
MUTS = (None, 'delete', 'duplicate', 'retag', 'bad_count', 'too_many_components')
LOOPS = {'997': (None, 'ST_LOOP', 'AK2'), '834_lui_id': (None, '2000', 'ST_LOOP'), '999': (None, '2000'), 'repeat_init_segment': (None, 'ST_LOOP')}
NDOC = P('ndoc', 2)


def _text(d, m, i):
    segs = docs.split_segments(docs.VALID[DOCS[d]])
    if MUTS[m] is not None:
        segs = mutate(segs, MUTS[m], i)
    return docs.join_segments(segs)


def h_state_preserved(d: int, m: int, ip: int, sinks: bool) -> bool:
    '''
    pre: 0 <= d < NDOC and 0 <= m < 6 and 0 <= ip < 4
    pre: m > 0 or ip == 0
    post: _
    '''
    i = (1, 4, 6, 9)[ip]
    ack = html = xml = sinks
    before = snapshot()
    docs.validate(_text(d, m, i), ack=ack, html=html, xml=xml)
    return snapshot() == before


def h_state_preserved_ctx(d: int, li: int, edit: bool) -> bool:
    '''
    pre: 0 <= d < NDOC and 0 <= li < 3
    post: _
    '''
    loops = LOOPS[DOCS[d]]
    loop_id = loops[li % len(loops)]
    before = snapshot()
    rd = pyx12.x12context.X12ContextReader(pyx12.params.params(), pyx12.error_handler.errh_null(), io.StringIO(docs.VALID[DOCS[d]]))
    for node in rd.iter_segments(loop_id):
        if edit and node.type == 'loop':
            cp = node.copy()
            for ch in list(cp.children):
                if ch.type == 'loop':
                    ch.delete()
            list(cp.iterate_loop_segments())
    return snapshot() == before


# ------------------------------------------------------------------ history independence
def _state_doc():
    """834 whose N402 state code is not a state: valid only when the 'states' external code set is excluded"""
    segs = docs.split_segments(docs.VALID['834_lui_id'])
    return docs.join_segments([s.replace('*MI*', '*ZZ*') if s.startswith('N4*') else s for s in segs])


JOBS = (
    ('834_lui_id', None, 'E'), ('834_state', None, 'E'), ('834_state', 'states', 'E'), ('997', None, 'E'), ('834_lui_id', None, 'B'),
    ('repeat_init_segment', None, 'E'), ('834_state', 'states,country', 'B'),
)
NJOB = len(JOBS)


def _param(job):
    p = pyx12.params.params()
    p.set('exclude_external_codes', job[1])
    p.set('charset', job[2])
    return p


def _run(job, param=None):
    text = _state_doc() if job[0] == '834_state' else docs.VALID[job[0]]
    r = docs.validate(text, ack=True, html=True, xml=True, param=param or _param(job))
    html = re.sub(r'Analysis Date: [^<]*', 'Analysis Date: X', r.html or '')
    return (r.verdict, r.ack, r.xml, html, type(r.exc).__name__)


_FRESH = {}     # the result of each job when it is the FIRST thing done with the library in this process ... (one job per process)
FIRST = P('first', 0)
_FRESH[FIRST] = _run(JOBS[FIRST])


def h_history(a: int, reuse_param: bool) -> bool:
    '''
    pre: 0 <= a < NJOB
    post: _
    '''
    # job a (symbolic), then job FIRST again: the result must be what FIRST gave as the first job of this process; with reuse_param the
    # same parameter object is handed to both runs
    shared = _param(JOBS[FIRST]) if reuse_param else None
    if reuse_param:
        shared.set('exclude_external_codes', JOBS[a][1])
        shared.set('charset', JOBS[a][2])
    _run(JOBS[a], shared)
    if reuse_param:
        shared.set('exclude_external_codes', JOBS[FIRST][1])
        shared.set('charset', JOBS[FIRST][2])
    again = _run(JOBS[FIRST], shared)
    return again == _FRESH[FIRST]


def conc_hash_seed():
    """Side condition (concrete): fresh interpreters with different string-hash seeds give identical acknowledgements."""
    prog = ("import sys; sys.path.insert(0, %r); from harness import docs; docs.freeze_clock(); "
            "from harness.mutate import mutate; import hashlib\n"
            "out = []\n"
            "for name in ('834_lui_id', 'repeat_init_segment', '834_lui_id_5010'):\n"
            "    segs = docs.split_segments(docs.VALID[name])\n"
            "    for k in ('bad_count', 'too_many_components', 'empty_elements', 'overlong'):\n"
            "        for i in (3, 5, 8, 11):\n"
            "            s = mutate(mutate(segs, k, i), 'trailing_separator', i)\n"
            "            r = docs.validate(docs.join_segments(s))\n"
            "            out.append(repr((r.verdict, r.ack)))\n"
            "    se = [k for k, x in enumerate(segs) if x.startswith('SE*')][0]\n"
            "    gs = [k for k, x in enumerate(segs) if x.startswith('GS*')][0]\n"
            "    for k in ('bad_count', 'too_many_components', 'retag', 'delete'):\n"
            "        for i in (4, 7, 10):\n"
            "            s = mutate(mutate(segs, 'bad_count', se), k, i)\n"
            "            r = docs.validate(docs.join_segments(s))\n"
            "            out.append(repr((r.verdict, r.ack)))\n"
            "print(hashlib.sha1('\\n'.join(out).encode()).hexdigest())\n") % os.path.dirname(os.path.dirname(os.path.abspath(__file__)))
    digests = []
    for seed in ('0', '1', '2', '3', '7', '42'):
        env = dict(os.environ, PYTHONHASHSEED=seed, PYTHONWARNINGS='ignore')
        p = subprocess.run([sys.executable, '-W', 'ignore', '-c', prog], env=env, stdout=subprocess.PIPE, stderr=subprocess.DEVNULL, text=True)
        digests.append(p.stdout.strip())
    ok = len(set(digests)) == 1 and digests[0] != ''
    return {'verdict': 'confirmed' if ok else 'refuted', 'call': 'conc_hash_seed_ok()', 'queries': 0, 'solver_time_s': 0.0,
            'sample': {'digests': digests}, 'detail': 'acknowledgement digests per PYTHONHASHSEED: %s' % digests}


def conc_hash_seed_ok():
    return conc_hash_seed()['verdict'] == 'confirmed'


def _ob(name, fn, tier, timeout, kind='ch', **params):
    return {'name': name, 'fn': fn, 'kind': kind, 'tier': tier, 'timeout': timeout, 'params': params}


OBLIGATIONS = [
    _ob('hash_seed_independence', 'conc_hash_seed', 'quick', 900, kind='concrete'),
    _ob('state_preserved_validate_997', 'h_state_preserved', 'quick', 3600, ndoc=1),
    _ob('state_preserved_validate_all', 'h_state_preserved', 'thorough', 7200, ndoc=4),
    _ob('state_preserved_context', 'h_state_preserved_ctx', 'quick', 2400, ndoc=2),
    _ob('state_preserved_context_all', 'h_state_preserved_ctx', 'thorough', 3600, ndoc=4),
]
for f in range(NJOB):
    OBLIGATIONS.append(_ob('history_then_job%d' % f, 'h_history', 'quick' if f in (1, 2) else 'thorough', 3600, first=f))

LEVEL = 'other'
EXPLANATION = __doc__
BOUNDS = ('state preservation: 997 document (quick; 4 documents thorough) x 6 mutation kinds x 4 positions x all sinks on/off; context reader on 2 (4) documents x 3 loop choices x edit on/off; '
          'history: every job of a 7-element catalogue (documents x exclude_external_codes x charset) followed by job 1 / job 2 (all 7 in thorough), parameter object fresh or reused; '
          'hash seeds 0 1 2 3 7 42 on 48 multi-fault documents.')
OUTSIDE = ('histories longer than two jobs (covered by the inductive argument only as far as G and the history obligations capture all state); state outside pyx12.* (logging handlers, '
           'interpreter caches); the timestamp / control-number fields (frozen by the clock stub).')
ASSUMPTIONS = [
    'G = container-valued module globals, class attributes and function defaults of pyx12.* (tests excluded), compared by repr',
    'clock and RNG frozen; the HTML date line is masked',
    '"fresh" result of a job = its result when it is the first job executed in the worker process (one job per obligation)',
]
FUNCTIONS = ['pyx12/x12n_document.py:x12n_document', 'pyx12/x12context.py:X12ContextReader.iter_segments', 'pyx12/map_if.py:load_map_file',
             'pyx12/codes.py:ExternalCodes.*', 'pyx12/params.py:ParamsBase.*']
