"""
C17  Reference-designator and path addressing is consistent.

Real code executed symbolically: pyx12.path.X12Path (__init__, format, format_refdes, __eq__, __hash__) and
pyx12.segment.Segment (_parse_refdes, get, get_value, set, append).

Layering (CrossHair 0.0.110 mis-models back-tracking of optional regex groups on symbolic strings - measured: a spurious
counterexample 'A001-10' -> seg_id 'A00' that does not replay - so the regex layer is decided by Engine B instead):
 * Engine B (z3, cvc5 cross-check): X12Path.rec_path, read from the imported class, (a) is language-equal to the documented
   last-component grammar (any length), (b) each of its four top-level groups is language-equal to the documented part
   (segment id, bracketed qualifier, two-digit index, hyphen + component) and (c) every string has exactly ONE decomposition
   into those parts (parts <= 6/8 characters), so whatever priority Python's matcher uses, the groups are the documented parts.
 * Engine A (CrossHair): everything around the regex - '/' splitting with symbolic absolute flag and symbolic loop ids, field
   assignment, int conversion, the two rejection rules, printing, equality, hashing - with the last component taken from a table of
   concrete components by symbolic index (the regex then runs natively = exactly); Segment.set/get on segments with symbolic values.
"""
import re
from harness.common import P
from pyx12.path import X12Path
from pyx12.segment import Segment
from pyx12.errors import X12PathError, EngineError

from crosshair.core import realize

_REAL_REC = X12Path.rec_path


class _RealizingPattern(object):
    """Cut (recorded in ASSUMPTIONS): the string handed to the path regex is concretised at the regex boundary, so the regex runs
    natively (exactly); the regex layer itself is decided by Engine B. Outside CrossHair `realize` is the identity."""
    pattern = _REAL_REC.pattern
    flags = _REAL_REC.flags
    groupindex = _REAL_REC.groupindex
    real = _REAL_REC

    def search(self, s, *a):
        return _REAL_REC.search(realize(s), *a)

    def match(self, s, *a):
        return _REAL_REC.match(realize(s), *a)

    def fullmatch(self, s, *a):
        return _REAL_REC.fullmatch(realize(s), *a)


if hasattr(_REAL_REC, 'search'):
    X12Path.rec_path = _RealizingPattern()

NEL = P('nel', 1)
E2 = P('e2', 3)
EIDX = P('eidx', 1)
NLOOPS = P('nloops', 1)
MAXPART = P('maxpart', 6)

LASTCOMP = re.compile(r'([A-Z][A-Z0-9]{1,2})?(\[[A-Z0-9]+\])?([0-9]{2})?(-[0-9]+)?')
PART_SPECS = ['([A-Z][A-Z0-9]{1,2})?', r'(\[[A-Z0-9]+\])?', '([0-9]{2})?', '(-[0-9]+)?']
LOOPID = re.compile('[^/]{1,4}')

# table of well-formed last components: (text, seg, qual, ele, sub)
COMPONENTS = [('', None, None, None, None)]
for _s in ('NM1', 'N1', 'A12'):
    for _q in (None, '85', '1B5'):
        for _e in (None, '01', '10', '99'):
            for _c in (None, '1', '12'):
                if _c is not None and _e is None:
                    continue
                COMPONENTS.append((_s + ('[%s]' % _q if _q else '') + (_e or '') + ('-' + _c if _c else ''),
                                   _s, _q, int(_e) if _e else None, int(_c) if _c else None))
BARE = [(e + ('-' + c if c else ''), None, None, int(e), int(c) if c else None)
        for e in ('01', '09', '10', '99') for c in (None, '1', '2', '12')]
NCOMP = len(COMPONENTS)
NBARE = len(BARE)
# qualifier and/or index without a segment id (only legal as a bare reference designator, never after loop ids)
BAD = ['[85]', '[1B5]03', '[A]10-2', '03', '10-1', '99-12', '[85]01-1']
NBAD = len(BAD)


def _fields_ok(p, absolute, loops, comp):
    return (p.relative == (not absolute) and p.loop_list == loops and p.seg_id == comp[1] and p.id_val == comp[2] and
            p.ele_idx == comp[3] and p.subele_idx == comp[4])


LOOPS = ('ISA_LOOP', '2000A', 'HEADER', '2300', 'GS_LOOP', 'ST_LOOP', 'DETAIL', '1000B', '2110', 'TABLE1')
NL = P('nl', 10)


def h_path_roundtrip(absolute: bool, i: int, j: int, k: int) -> bool:
    '''
    pre: 0 <= i < NL and 0 <= j < NL
    pre: (NLOOPS >= 1 or i == 0) and (NLOOPS >= 2 or j == 0)
    pre: 1 <= k < NCOMP
    post: _
    '''
    # NLOOPS loop ids, then a well-formed last component.  All strings are concrete per path (symbolic *choices*): CrossHair 0.0.110
    # gave spurious (non-replaying) results for == between composed symbolic strings inside X12Path.__eq__, so loop ids are not symbolic.
    loops = [LOOPS[i], LOOPS[j]][:NLOOPS]
    comp = COMPONENTS[k]
    text = ('/' if absolute else '') + '/'.join(loops + [comp[0]])
    p = X12Path(text)
    printed = p.format()
    q = X12Path(printed)
    return (_fields_ok(p, absolute, loops, comp) and printed == text and q == p and not (q != p) and
            hash(q) == hash(p) and p.format_refdes() == comp[0])


def h_path_looponly(absolute: bool, i: int, j: int, m: int) -> bool:
    '''
    pre: 0 <= i < NL and 0 <= j < NL and 0 <= m < 10
    pre: (NLOOPS >= 1 or i == 0) and (NLOOPS >= 2 or j == 0)
    post: _
    '''
    # a path that ends in a loop id (representative shipped ids): nothing is taken for a segment
    loops = [LOOPS[i], LOOPS[j]][:NLOOPS] + [LOOPS[m]]
    text = ('/' if absolute else '') + '/'.join(loops)
    p = X12Path(text)
    return (_fields_ok(p, absolute, loops, ('', None, None, None, None)) and p.format() == text and
            X12Path(p.format()) == p and p.format_refdes() == '')


def h_path_root(absolute: bool) -> bool:
    '''
    post: _
    '''
    text = '/' if absolute else ''
    p = X12Path(text)
    return _fields_ok(p, absolute, [], ('', None, None, None, None)) and p.format() == text and X12Path(p.format()) == p


def h_path_bare(k: int) -> bool:
    '''
    pre: 0 <= k < NBARE
    post: _
    '''
    comp = BARE[k]
    p = X12Path(comp[0])
    return _fields_ok(p, False, [], comp) and p.format() == comp[0] and X12Path(p.format()) == p


def h_path_reject(absolute: bool, i: int, j: int, k: int) -> bool:
    '''
    pre: 0 <= i < NL and 0 <= j < NL
    pre: NLOOPS >= 2 or j == 0
    pre: 0 <= k < NBAD
    post: _
    '''
    # qualifier and/or element index after loop ids, without a segment id: the path error and nothing else
    loops = [LOOPS[i], LOOPS[j]][:max(NLOOPS, 1)]
    text = ('/' if absolute else '') + '/'.join(loops + [BAD[k]])
    try:
        X12Path(text)
    except X12PathError:
        return True
    return False


def h_path_eq_distinct(absolute: bool, i: int, j: int, k: int, k2: int, absolute2: bool) -> bool:
    '''
    pre: 0 <= i < NL and 0 <= j < NL
    pre: 1 <= k < 12 and 1 <= k2 < 12
    pre: k != k2 or absolute != absolute2 or i != j
    post: _
    '''
    # different texts parse to unequal paths (equality is not coarser than the printed form)
    a = X12Path(('/' if absolute else '') + LOOPS[i] + '/' + COMPONENTS[k][0])
    b = X12Path(('/' if absolute2 else '') + LOOPS[j] + '/' + COMPONENTS[k2][0])
    return a != b and not (a == b)


# ------------------------------------------------------------------ Segment.set / get
def _mk(vals, twos):
    seg = Segment('TST', '~', '*', ':')
    model = []
    for k in range(NEL):
        a, b = vals[2 * k], vals[2 * k + 1]
        if twos[k]:
            seg.append(a + ':' + b)
            model.append([a, b])
        else:
            seg.append(a)
            model.append([a])
    return seg, model


def _snapshot(seg):
    return [[e.get_value() for e in comp.elements] for comp in seg.elements]


def _ok1(a: str) -> bool:
    return len(a) <= 1 and a != '~' and a != '*' and a != ':'


def _okv(v: str) -> bool:
    return len(v) <= 2 and '~' not in v and '*' not in v and ':' not in v


def _setget(vals, twos, with_id, c, v):
    seg, model = _mk(vals, twos)
    rd_short = '%02i' % EIDX + ('-%i' % c if c > 0 else '')
    rd_long = 'TST' + rd_short
    seg.set(rd_long if with_id else rd_short, v)
    # reference model of the documented behaviour
    while len(model) < EIDX:
        model.append([''])
    if c == 0:
        model[EIDX - 1] = [v]
    else:
        while len(model[EIDX - 1]) < c:
            model[EIDX - 1].append('')
        model[EIDX - 1][c - 1] = v
    got = seg.get_value(rd_short)
    other = seg.get_value(rd_long)
    return got == v and other == v and _snapshot(seg) == model and len(seg) == len(model)


def h_setget0(with_id: bool, c: int, v: str) -> bool:
    '''
    pre: 0 <= c <= 3 and _okv(v)
    post: _
    '''
    return _setget([], [], with_id, c, v)


def h_setget1(a0: str, b0: str, two0: bool, with_id: bool, c: int, v: str) -> bool:
    '''
    pre: _ok1(a0) and _ok1(b0)
    pre: 0 <= c <= 3 and _okv(v)
    post: _
    '''
    return _setget([a0, b0], [two0], with_id, c, v)


def h_setget2(a0: str, b0: str, a1: str, b1: str, two0: bool, two1: bool, with_id: bool, c: int, v: str) -> bool:
    '''
    pre: _ok1(a0) and _ok1(b0) and _ok1(a1) and _ok1(b1)
    pre: 0 <= c <= 3 and _okv(v)
    post: _
    '''
    return _setget([a0, b0, a1, b1], [two0, two1], with_id, c, v)


def h_setget3(a0: str, b0: str, a1: str, b1: str, a2: str, b2: str, two0: bool, two1: bool, two2: bool,
              with_id: bool, c: int, v: str) -> bool:
    '''
    pre: _ok1(a0) and _ok1(b0) and _ok1(a1) and _ok1(b1) and _ok1(a2) and _ok1(b2)
    pre: 0 <= c <= 3 and _okv(v)
    post: _
    '''
    return _setget([a0, b0, a1, b1, a2, b2], [two0, two1, two2], with_id, c, v)


def h_setset(a0: str, two0: bool, c1: int, v1: str, c2: int, v2: str) -> bool:
    '''
    pre: _ok1(a0)
    pre: 0 <= c1 <= 5 and _ok1(v1) and 0 <= c2 <= 5 and _ok1(v2)
    post: _
    '''
    # two writes in a row (at EIDX, then at E2): catches padding that shares mutable state between positions
    seg = Segment('TST', '~', '*', ':')
    seg.append(a0 + ':' + a0 if two0 else a0)
    model = [[a0, a0] if two0 else [a0]]
    for (e, c, v) in ((EIDX, c1, v1), (E2, c2, v2)):
        seg.set('%02i' % e + ('-%i' % c if c > 0 else ''), v)
        while len(model) < e:
            model.append([''])
        if c == 0:
            model[e - 1] = [v]
        else:
            while len(model[e - 1]) < c:
                model[e - 1].append('')
            model[e - 1][c - 1] = v
    return _snapshot(seg) == model


def h_get_absent(a0: str, b0: str, two0: bool, e: int, c: int) -> bool:
    '''
    pre: _ok1(a0) and _ok1(b0)
    pre: 1 <= e <= 3 and 0 <= c <= 3
    post: _
    '''
    # reading never changes the segment; a position beyond the data reads as None
    seg, model = _mk([a0, b0], [two0])
    rd = '%02i' % e + ('-%i' % c if c > 0 else '')
    got = seg.get_value(rd)
    if e > len(model):
        exp = None
    elif c == 0:
        m = model[e - 1]
        exp = m[0] if (len(m) == 1 or m[1] == '') else m[0] + ':' + m[1]
    elif c > len(model[e - 1]):
        exp = None
    else:
        exp = model[e - 1][c - 1]
    return got == exp and _snapshot(seg) == model


FOREIGN = ('NM1', 'TS', 'TSU', 'ST', 'T1')


def h_foreign(a0: str, j: int, c: int, v: str, do_set: bool) -> bool:
    '''
    pre: _ok1(a0) and _okv(v)
    pre: 0 <= j < 5 and 0 <= c <= 2
    post: _
    '''
    seg = Segment('TST', '~', '*', ':')
    seg.append(a0)
    rd = FOREIGN[j] + '%02i' % EIDX + ('-%i' % c if c > 0 else '')
    try:
        if do_set:
            seg.set(rd, v)
        else:
            seg.get_value(rd)
    except EngineError:
        return _snapshot(seg) == [[a0]]
    return False


# ------------------------------------------------------------------ Engine B
def smt_rec_path():
    """(a) language of X12Path.rec_path == documented grammar (+ Python's `$` newline quirk), any length."""
    from engine import smtq
    q = smtq.Q()
    ra = smtq.re_to_z3(_REAL_REC)
    rb = smtq.re_to_z3(re.compile(LASTCOMP.pattern + '\n?', re.S))
    verdict, w = smtq.lang_diff_witness(q, ra, rb, what='X12Path.rec_path == documented grammar')
    out = {'verdict': verdict, 'queries': q.queries, 'solver_time_s': q.solver_time_s,
           'sample': {'pattern': _REAL_REC.pattern, 'spec': LASTCOMP.pattern, 'solver_log': q.log},
           'functions': ['pyx12/path.py:X12Path.rec_path (compiled pattern object)']}
    if verdict == 'refuted':
        out['call'] = '_replay_rec_path(%r)' % smtq.z3str_to_py(w)
    return out


def _replay_rec_path(w):
    return (_REAL_REC.search(w) is not None) == (re.compile(LASTCOMP.pattern + '\n?', re.S).fullmatch(w) is not None)


def smt_rec_path_groups():
    """(b) each top-level group of the real regex == the documented part; (c) decomposition into the parts is unique."""
    from engine import smtq
    q = smtq.Q()
    items = smtq.top_items(_REAL_REC)
    out = {'verdict': 'confirmed', 'functions': ['pyx12/path.py:X12Path.rec_path (group structure)']}
    if len(items) != 4:
        out.update({'verdict': 'refuted', 'call': '_replay_groups()', 'detail': 'regex no longer has four top-level parts'})
    else:
        for k, (it, sp) in enumerate(zip(items, PART_SPECS)):
            v, w = smtq.lang_diff_witness(q, it, smtq.re_to_z3(re.compile(sp)), what='group %d == %s' % (k + 1, sp))
            if v != 'confirmed':
                out.update({'verdict': v, 'detail': 'group %d differs from %s on %r' % (k + 1, sp, w),
                            'call': '_replay_groups()'})
                break
        if out['verdict'] == 'confirmed':
            v, w = smtq.unique_decomposition(q, items, what='unique decomposition, parts <= %d' % MAXPART, max_part=MAXPART)
            if v != 'confirmed':
                out.update({'verdict': v, 'detail': 'two decompositions of %r' % w, 'call': '_replay_groups()'})
    out.update({'queries': q.queries, 'solver_time_s': q.solver_time_s, 'sample': {'parts': PART_SPECS, 'solver_log': q.log}})
    return out


def _replay_groups():
    """Native re-check of the group structure on the component table (used only when Engine B reports a difference)."""
    for (text, seg, qual, ele, sub) in COMPONENTS[1:] + BARE:
        m = _REAL_REC.search(text)
        if m is None:
            return False
        g = m.groupdict()
        if (g.get('seg_id'), g.get('id_val')) != (seg, qual):
            return False
        if (int(g['ele_idx']) if g.get('ele_idx') else None, int(g['subele_idx']) if g.get('subele_idx') else None) != (ele, sub):
            return False
    return len(_REAL_REC.groupindex) == 4


def _ob(name, fn, tier, timeout, kind='ch', **params):
    return {'name': name, 'fn': fn, 'kind': kind, 'tier': tier, 'timeout': timeout, 'params': params}


OBLIGATIONS = [
    _ob('smt_rec_path', 'smt_rec_path', 'quick', 120, kind='smt'),
    _ob('smt_rec_path_groups_le6', 'smt_rec_path_groups', 'quick', 300, kind='smt', maxpart=6),
    _ob('smt_rec_path_groups_le8', 'smt_rec_path_groups', 'thorough', 600, kind='smt', maxpart=8),
    _ob('path_root', 'h_path_root', 'quick', 60),
    _ob('path_bare', 'h_path_bare', 'quick', 300),
    _ob('path_loops0', 'h_path_roundtrip', 'quick', 600, nloops=0),
    _ob('path_loops1', 'h_path_roundtrip', 'quick', 1200, nloops=1, nl=5),
    _ob('path_loops1_all', 'h_path_roundtrip', 'thorough', 2400, nloops=1, nl=10),
    _ob('path_loops2', 'h_path_roundtrip', 'thorough', 2400, nloops=2, nl=4),
    _ob('path_looponly0', 'h_path_looponly', 'quick', 300, nloops=0),
    _ob('path_looponly1', 'h_path_looponly', 'quick', 600, nloops=1),
    _ob('path_looponly2', 'h_path_looponly', 'thorough', 1200, nloops=2, nl=5),
    _ob('path_reject_loops1', 'h_path_reject', 'quick', 600, nloops=1),
    _ob('path_reject_loops2', 'h_path_reject', 'thorough', 1200, nloops=2, nl=5),
    _ob('path_eq_distinct', 'h_path_eq_distinct', 'thorough', 2400, nl=3),
]
for nel in (0, 1, 2, 3):
    for e in (1, 2, 3, 4, 5):
        tier = 'quick' if (nel <= 1 and e <= 3) or (nel == 2 and e == 2) else 'thorough'
        if nel == 3 and e not in (2, 4):
            continue
        OBLIGATIONS.append(_ob('setget_n%d_e%d' % (nel, e), 'h_setget%d' % nel, tier, 900 if nel < 3 else 5400, nel=nel, eidx=e))
OBLIGATIONS += [
] + [_ob('setset_e%d_e%d' % (e1, e2), 'h_setset', 'quick' if (e1, e2) in ((5, 3), (4, 2), (2, 2), (1, 1)) else 'thorough', 900, eidx=e1, e2=e2)
     for e1 in (1, 2, 3, 4, 5) for e2 in (1, 2, 3, 4, 5)] + [
    _ob('get_absent', 'h_get_absent', 'quick', 300, nel=1),
    _ob('foreign_e1', 'h_foreign', 'quick', 300, eidx=1),
    _ob('foreign_e3', 'h_foreign', 'thorough', 300, eidx=3),
]

LEVEL = 'other'
EXPLANATION = __doc__
BOUNDS = ('paths: 0..1 (2 thorough) arbitrary symbolic loop ids of <= 4 characters that are not of refdes shape, absolute/relative symbolic, '
          'last component = symbolic choice from a generated table of %d well-formed components (4 segment ids x 4 qualifiers x 5 indices x 4 '
          'components) + %d bare designators + %d ill-formed ones; regex layer: any length for the languages, parts <= 6 (8 thorough) characters '
          'for the uniqueness of decomposition; segments of 0..1 (3 thorough) elements x 1..2 components with arbitrary delimiter-free values of '
          '<= 1 character, written value any delimiter-free string of <= 2 characters, designator element 1..3 (5 thorough), component 0..3, with '
          'and without segment id; two consecutive writes from a one-element segment.' % (NCOMP, NBARE, NBAD))
OUTSIDE = ('loop depth > 2; trailing-slash paths; the printed path of every node of every shipped map (not enumerated; 997.4010 has loop ids AK2/AK3 '
           'of segment shape, which the documented grammar itself parses as a final segment id); the ISA16 special case of Segment.set; values '
           'containing the segment delimiters; sequences of more than two writes.')
ASSUMPTIONS = [
    'documented grammar: [/]loop(/loop)*[/]( SEG[ \\[QUAL\\] ] [EE [ -C ]] ), SEG=[A-Z][A-Z0-9]{1,2}, QUAL=[A-Z0-9]+, EE=two digits, C=digits',
    'Python `$` also matches before one trailing newline: the regex language is compared with grammar + optional "\\n" (strings ending in a newline are not well-formed paths and outside the property)',
    'cut: under CrossHair the string passed to X12Path.rec_path is concretised at the regex boundary (harness stub _RealizingPattern), so the regex runs natively; loop ids stay symbolic through split/join/compare',
    'the CrossHair obligations rely on Engine B for the generality of segment id / qualifier / index values: the table fixes 4 x 4 x 5 x 4 representatives',
]
FUNCTIONS = ['pyx12/path.py:X12Path.__init__', 'pyx12/path.py:X12Path.format', 'pyx12/path.py:X12Path.format_refdes',
             'pyx12/segment.py:Segment.set', 'pyx12/segment.py:Segment.get', 'pyx12/segment.py:Segment._parse_refdes']
