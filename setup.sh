#!/bin/bash
# Build the overlay venv the checks run in (offline, idempotent).
# /verif/.venv = venv of /venv/bin/python + .pth pointing at /venv's site-packages (so the
# repository's own environment, incl. the develop-install of /repo, is visible) + crosshair-tool
# and z3-solver from the offline wheelhouse.
set -e
cd "$(dirname "$0")"
V=/verif/.venv
if [ ! -x $V/bin/python ] || ! $V/bin/python -c "import crosshair, z3, cvc5, pyx12" 2>/dev/null; then
  rm -rf $V
  /venv/bin/python -m venv $V
  SP=$($V/bin/python -c "import sysconfig; print(sysconfig.get_paths()['purelib'])")
  echo "import site; site.addsitedir('/venv/lib/python3.12/site-packages')" > $SP/_base.pth
  PIP_NO_INDEX=1 $V/bin/pip install -q --no-index --find-links /opt/veriftools/wheels crosshair-tool z3-solver cvc5 >/dev/null
fi
$V/bin/python -c "import crosshair, z3, pyx12, sys; import os; assert os.environ.get('VERIF_REPO') or pyx12.__file__.startswith('/repo/'), pyx12.__file__"
echo "setup ok"
